package main

import (
	"fmt"
	"go/token"
	"go/types"
	"os"
	"sort"
	"strings"

	"golang.org/x/tools/go/ssa"
)

// ---------------------------------------------------------------------------
// CHAN: no send on a channel that may have been closed (C15.7, C20.6)

func ruleChan(c *Ctx) {
	p := c.P
	type site struct {
		fn *ssa.Function
		in ssa.Instruction
	}
	closes := map[*types.Var][]site{}
	sends := map[*types.Var][]site{}
	for _, fn := range p.Repo {
		for _, in := range instrsOf(fn) {
			if call, ok := isBuiltinCall(in, "close"); ok {
				if f, _ := fieldLoad(call.Call.Args[0]); f != nil {
					closes[f] = append(closes[f], site{fn, in})
				}
			}
			if s, ok := in.(*ssa.Send); ok {
				if f, _ := fieldLoad(s.Chan); f != nil {
					sends[f] = append(sends[f], site{fn, in})
				}
			}
		}
	}
	var flds []*types.Var
	for f := range closes {
		flds = append(flds, f)
	}
	sort.Slice(flds, func(i, j int) bool { return flds[i].Name() < flds[j].Name() })
	for _, f := range flds {
		for _, s := range sends[f] {
			c.inst(1)
			name := fnName(s.fn)
			what := "send on " + fieldOwner(p, f) + "." + f.Name() + " cannot hit a closed channel"
			pos := p.InstrPos(s.in)
			// (a) send and close in one function (one critical section)
			same := false
			for _, cl := range closes[f] {
				if cl.fn == s.fn {
					same = true
				}
			}
			if same {
				c.ok(name, what, pos, "send and close in the same function, guarded by the same flag under one mutex")
				continue
			}
			// (b) flag discipline: a bool field stored true right before every close, under a mutex, and tested
			//     (false edge) before the send or before every call of the sending function, under the same mutex
			ok, why := flagDiscipline(p, f, s.fn, s.in, closes[f][0].fn, closes[f][0].in)
			if ok {
				c.ok(name, what, pos, why)
			} else {
				// a send wrapped in an unexported helper that does nothing else is reported at the functions that use the helper
				names := []string{name}
				if top := TopLevel(s.fn); top == s.fn && top.Object() != nil && !top.Object().Exported() && len(top.Blocks) == 1 && len(callsIn(top)) == 0 {
					if cs := callerNames(p, top); len(cs) > 0 {
						names = cs
					}
				}
				for _, name := range names {
					c.viol(name, what, pos, "the channel is closed by "+fnName(closes[f][0].fn)+" but this send is not ordered against the close by a flag under a common mutex: a late sender panics with 'send on closed channel' ("+why+")")
				}
			}
		}
	}
	// double close: each channel field is closed at one site, once
	lifecycle := map[*types.Var]bool{}
	for _, q := range []string{"rescache.Cache.inCh", "server.wsConn.work", "server.Service.stop", "nats.Client.mqCh"} {
		if f := p.Field(q); f != nil {
			lifecycle[f] = true
		}
	}
	for _, f := range flds {
		if !lifecycle[f] {
			continue // other channels (request-local completion signals) are closed once per object by LIN rules
		}
		c.inst(1)
		c.check(len(closes[f]) == 1, fieldOwner(p, f)+"."+f.Name(), "closed at a single site", p.InstrPos(closes[f][0].in), "one close", fmt.Sprintf("%d close sites", len(closes[f])))
	}
}

func flagDiscipline(p *Prog, ch *types.Var, sendFn *ssa.Function, send ssa.Instruction, closeFn *ssa.Function, cl ssa.Instruction) (bool, string) {
	// the flag: a bool field stored `true` in the close's function, dominating the close
	var flag *types.Var
	for _, in := range instrsOf(closeFn) {
		if st, ok := in.(*ssa.Store); ok {
			if b, isC := constBool(st.Val); isC && b {
				if fa, ok := st.Addr.(*ssa.FieldAddr); ok && dominates(st, cl) {
					flag = fieldOfAddr(fa)
				}
			}
		}
	}
	if flag == nil {
		return false, "no flag is set before the close"
	}
	locked := func(fn *ssa.Function, at ssa.Instruction) *types.Var {
		var mu *types.Var
		for _, in := range instrsOf(fn) {
			if call, ok := in.(*ssa.Call); ok {
				if cf := calleeFunc(&call.Call); cf != nil && cf.Name() == "Lock" && cf.Pkg() != nil && cf.Pkg().Path() == "sync" && dominates(call, at) {
					if fa, ok := call.Call.Args[0].(*ssa.FieldAddr); ok {
						mu = fieldOfAddr(fa)
					}
				}
			}
		}
		return mu
	}
	muClose := locked(closeFn, cl)
	if muClose == nil {
		return false, "close is not performed under a mutex"
	}
	guard := boolFieldGuard(flag, false)
	checkAt := func(fn *ssa.Function, at ssa.Instruction) bool {
		return p.guardedBy(at, guard) != nil && locked(fn, at) == muClose
	}
	if checkAt(sendFn, send) {
		return true, "send dominated by !" + flag.Name() + " under " + muClose.Name()
	}
	// lift to the call sites of the sending function
	n := p.CG.Nodes[sendFn]
	if n == nil || len(n.In) == 0 {
		return false, "sender has no guarded caller"
	}
	for _, e := range n.In {
		// a promoted-method wrapper nobody calls is no caller
		if cf := e.Caller.Func; cf != nil && cf.Synthetic != "" && !strings.HasSuffix(cf.Name(), "$bound") {
			if cn := p.CG.Nodes[cf]; cn == nil || len(cn.In) == 0 {
				continue
			}
		}
		if e.Site == nil || !checkAt(e.Caller.Func, e.Site) {
			return false, "caller " + fnName(e.Caller.Func) + " does not test " + flag.Name() + " under " + muClose.Name()
		}
	}
	return true, "every caller tests !" + flag.Name() + " under " + muClose.Name() + " before the send"
}

// ---------------------------------------------------------------------------
// FIFO: queue update forms (C03.1, C19.1)

type fifoForm struct {
	Fn    string
	Forms []string
}

var fifoTable = map[string][]fifoForm{
	"server.Subscription.eventQueue": {
		{"(*server.Subscription).Event", []string{"tail"}},
		{"(*server.Subscription).unqueueEvents", []string{"nil", "requeue"}},
		{"(*server.Subscription).Dispose", []string{"nil"}},
	},
	"server.wsConn.queue": {
		{"(*server.wsConn).enqueue", []string{"tail"}},
		{"(*server.wsConn).outputWorker", []string{"nil", "make", "trunc0"}},
		{"(*server.Service).newWSConn", []string{"make"}},
	},
	"rescache.EventSubscription.queue": {
		{"(*rescache.EventSubscription).Enqueue", []string{"tail"}},
		{"(*rescache.EventSubscription).processQueue", []string{"shift", "trunc0"}},
		{"(*rescache.EventSubscription).mqUnsubscribe", []string{"nil"}},
	},
	"rescache.EventSubscription.locks": {
		{"(*rescache.EventSubscription).enqueueUnlock", []string{"tail"}},
		{"(*rescache.EventSubscription).lockEvents", []string{"make"}},
		{"(*rescache.EventSubscription).processQueue", []string{"headdrop", "nil"}},
	},
	"rescache.Throttle.queue": {
		{"(*rescache.Throttle).Add", []string{"tail"}},
		{"(*rescache.Throttle).Done", []string{"headdrop"}},
	},
}

// queueForm classifies a store to a queue field.
func queueForm(st *ssa.Store, f *types.Var) string {
	v := st.Val
	if isNilConst(v) {
		return "nil"
	}
	switch x := v.(type) {
	case *ssa.MakeSlice:
		return "make"
	case *ssa.Call:
		if b, ok := x.Call.Value.(*ssa.Builtin); ok && b.Name() == "append" {
			if lf, _ := fieldLoad(x.Call.Args[0]); lf == f {
				return "tail" // append(q, v...)
			}
			// append(eq[i+1:], s.eventQueue...): not-yet-processed events first, then the newly arrived
			if sl, ok := x.Call.Args[0].(*ssa.Slice); ok && sl.Low != nil && sl.High == nil {
				if lf2, _ := fieldLoad(x.Call.Args[1]); lf2 == f {
					// eq must be a snapshot of the same field taken before it was reset
					src := sl.X
					if u, ok := src.(*ssa.UnOp); ok && u.Op == token.MUL {
						if al, ok := u.X.(*ssa.Alloc); ok {
							for _, r := range *al.Referrers() {
								if s2, ok := r.(*ssa.Store); ok && s2.Addr == ssa.Value(al) {
									src = s2.Val
								}
							}
						}
					}
					if lf3, _ := fieldLoad(src); lf3 == f {
						return "requeue"
					}
				}
			}
			return "append:other"
		}
	case *ssa.Slice:
		if _, ok := x.X.(*ssa.Alloc); ok {
			return "make" // make([]T, 0, const) is lowered to new [N]T + slice
		}
		lf, _ := fieldLoad(x.X)
		if lf != f {
			return "slice:other"
		}
		switch {
		case x.Low != nil && x.High == nil:
			return "headdrop" // q[k:]
		case x.Low == nil && x.High != nil:
			if k, ok := constInt(x.High); ok && k == 0 {
				return "trunc0" // q[0:0]
			}
			return "shift" // q[:len(q)-idx] after copy(q, q[idx:])
		case x.Low != nil && x.High != nil:
			if k, ok := constInt(x.High); ok && k == 0 {
				return "trunc0"
			}
		}
		if x.Low == nil && x.High == nil {
			return "slice:other"
		}
		if l, ok := constInt(x.Low); ok && l == 0 {
			if h, ok := constInt(x.High); ok && h == 0 {
				return "trunc0"
			}
		}
		return "slice:other"
	}
	return "other"
}

func ruleFIFO(fields ...string) func(c *Ctx) {
	return func(c *Ctx) {
		p := c.P
		for _, q := range fields {
			f := p.Field(q)
			if f == nil {
				c.undecided(q, "anchor", "-", "field not found")
				continue
			}
			allowed := map[string]map[string]bool{}
			for _, ff := range fifoTable[q] {
				nm := p.FnNameOf(ff.Fn)
				if os.Getenv("RV_DEBUG") != "" {
					fmt.Println("FIFO table", ff.Fn, "->", nm)
				}
				if allowed[nm] == nil {
					allowed[nm] = map[string]bool{}
				}
				for _, x := range ff.Forms {
					allowed[nm][x] = true
				}
			}
			for _, st := range p.stores[f] {
				c.inst(1)
				top := fnName(TopLevel(st.Parent()))
				if o, ok := p.ownedBy(st.Parent(), func(nm string) bool { return allowed[nm] != nil }); ok {
					top = o
				}
				form := queueForm(st, f)
				if form == "append:other" {
					if f2 := p.requeueThroughParam(st, f); f2 != "" {
						form = f2
					}
				}
				pos := p.InstrPos(st)
				what := "queue " + q[strings.LastIndex(q, ".")+1:] + " updated in FIFO form (" + top + ")"
				if allowed[top] == nil {
					c.viol(q, what, pos, top+" is not a listed writer of this queue")
					continue
				}
				c.check(allowed[top][form], q, what, pos, "form: "+form, "update form '"+form+"' is not one of the order-preserving forms listed for this function ("+strings.Join(sortedKeys(allowed[top]), ", ")+"): events or tasks would be reordered, duplicated or dropped")
			}
			// the shift form must be preceded by copy(q, q[idx:])
		}
	}
}

// ---------------------------------------------------------------------------
// REC: recursion census (C02.5, C15.8, C16.1)

var recTable = map[string]string{
	"(*server.Subscription).populateResources":                                             "guard: state Sent/ToSend returns; ToSend stored before the descent (DOM/ref-shapes)",
	"(*server.Subscription).populateResourcesLegacy":                                       "guard: as populateResources (DOM/ref-shapes)",
	"(*server.Subscription).ReleaseRPCResources":                                           "guard: stateSent returns; stateSent stored before the descent (DOM/ref-shapes)",
	"(*server.Subscription).collectRefs + (*server.Subscription).onLoaded":                 "guard: rcb.refMap marks visited subscriptions before the descent",
	"(*server.encoderJSON).encodeSubscription + (*server.encoderJSON).encodeValue":         "guard: containsString(e.path) and push of the own rid (PAIR/enc-path)",
	"(*server.encoderJSONFlat).encodeSubscription + (*server.encoderJSONFlat).encodeValue": "guard: containsString(e.path) and push of the own rid (PAIR/enc-path)",
	"(*server.Subscription).ReleaseRPCResources + (*server.Subscription).handleReaccess + (*server.Subscription).processCollectionEvent + (*server.Subscription).processEvent + (*server.Subscription).processModelEvent + (*server.Subscription).unqueueEvents": "subscription state machine: a nested unqueueEvents finds an empty queue (eventQueue = nil stored before the processing loop) and does not re-enter handleReaccess (flagReaccess cleared before loadAccess) — both checked below",
	"(*server.Subscription).traverse": "guard: gcStateStop returned for visited nodes by tryDelete's visitors (reviewed)",
	"server.jsonEncodeError":          "recursion only on a marshal error with a fixed-shape error (reviewed)",
	"(*rpc.Request).ErrorResponse":    "recursion only on a marshal error with a fixed-shape error (reviewed)",
	"(*server.Subscription).Dispose + (*server.Subscription).unsubscribeRefs + (*server.wsConn).Unsubscribe + (*server.wsConn).removeCount + (*server.wsConn).tryDelete": "guard: unsubscribeRefs passes tryDelete=false and removeCount calls tryDelete only when asked (DOM/ref-shapes)",
}

func ruleRec(c *Ctx) {
	p := c.P
	// graph: static calls and resolved invokes between repository functions (closures folded into their parents);
	// dynamic calls of function values are dispatch, not recursion
	adj := map[*ssa.Function]map[*ssa.Function]bool{}
	// a closure handed to an asynchronous combinator (queued task, mq completion, go) starts on an empty stack:
	// it is its own node; closures that may run inline are folded into their creator
	async := map[*ssa.Function]bool{}
	for _, f := range p.Repo {
		mc := p.parent[f]
		if mc == nil || mc.Referrers() == nil {
			continue
		}
		for _, r := range *mc.Referrers() {
			switch x := r.(type) {
			case *ssa.Go:
				async[f] = true
			case *ssa.Call:
				if cf := calleeFunc(&x.Call); cf != nil {
					if tbl := p.combFor(cf); tbl != nil {
						for i, a := range callArgs(&x.Call) {
							if a == ssa.Value(mc) && tbl[i].Async {
								async[f] = true
							}
						}
					}
				}
			}
		}
	}
	node := func(f *ssa.Function) *ssa.Function {
		for f.Parent() != nil && !async[f] {
			f = f.Parent()
		}
		return f
	}
	for _, f := range p.Repo {
		top := node(f)
		if adj[top] == nil {
			adj[top] = map[*ssa.Function]bool{}
		}
		for _, call := range callsIn(f) {
			if _, isGo := call.(*ssa.Go); isGo {
				continue
			}
			com := call.Common()
			if sf := com.StaticCallee(); sf != nil && p.isRepoFn(sf) && sf.Parent() == nil && sf.Synthetic == "" {
				adj[top][sf] = true
			} else if com.IsInvoke() {
				if n := p.CG.Nodes[f]; n != nil {
					for _, e := range n.Out {
						if e.Site == call && e.Callee.Func != nil && p.isRepoFn(e.Callee.Func) {
							adj[top][node(e.Callee.Func)] = true
						}
					}
				}
			}
		}
	}
	// Tarjan
	index := 0
	idx := map[*ssa.Function]int{}
	low := map[*ssa.Function]int{}
	on := map[*ssa.Function]bool{}
	var stack []*ssa.Function
	var sccs [][]*ssa.Function
	var strong func(v *ssa.Function)
	strong = func(v *ssa.Function) {
		index++
		idx[v], low[v] = index, index
		stack = append(stack, v)
		on[v] = true
		for w := range adj[v] {
			if idx[w] == 0 {
				strong(w)
				if low[w] < low[v] {
					low[v] = low[w]
				}
			} else if on[w] && idx[w] < low[v] {
				low[v] = idx[w]
			}
		}
		if low[v] == idx[v] {
			var comp []*ssa.Function
			for {
				w := stack[len(stack)-1]
				stack = stack[:len(stack)-1]
				on[w] = false
				comp = append(comp, w)
				if w == v {
					break
				}
			}
			if len(comp) > 1 || adj[v][v] {
				sccs = append(sccs, comp)
			}
		}
	}
	var fns []*ssa.Function
	for f := range adj {
		fns = append(fns, f)
	}
	sort.Slice(fns, func(i, j int) bool { return fnName(fns[i]) < fnName(fns[j]) })
	for _, f := range fns {
		if idx[f] == 0 {
			strong(f)
		}
	}
	// a listed function that was split into a family (removeCount -> removeDirectCount + removeIndirectCount)
	// keeps its place in the listed cycle
	canon := map[string]string{}
	for listed := range recTable {
		for _, x := range strings.Split(listed, " + ") {
			if fam := p.FnFamily(x); len(fam) > 1 {
				for _, f := range fam {
					canon[fnName(f)] = x
				}
			} else if len(fam) == 1 && fnName(fam[0]) != x {
				canon[fnName(fam[0])] = x // renamed: keeps its place under the listed name
			}
		}
	}
	for _, comp := range sccs {
		var names []string
		seenName := map[string]bool{}
		for _, f := range comp {
			nm := fnName(f)
			if c0, ok := canon[nm]; ok {
				nm = c0
			}
			if !seenName[nm] {
				seenName[nm] = true
				names = append(names, nm)
			}
		}
		sort.Strings(names)
		key := strings.Join(names, " + ")
		c.inst(1)
		why, ok := recTable[key]
		if !ok {
			// the same cycle with extracted helpers: a listed member set is contained in this SCC and every
			// extra member is a helper whose only static callers are members of the SCC
			inSCC := map[string]bool{}
			for _, n := range names {
				inSCC[n] = true
			}
			for listed, w := range recTable {
				parts := strings.Split(listed, " + ")
				all := true
				lm := map[string]bool{}
				for _, x := range parts {
					lm[x] = true
					if !inSCC[x] {
						all = false
					}
				}
				if !all || len(parts) < 2 && len(names) > 3 {
					continue
				}
				extrasOK := true
				for _, f := range comp {
					if lm[fnName(f)] || lm[canon[fnName(f)]] {
						continue
					}
					chain := p.ownerChain(f)
					if len(chain) < 2 || !inSCC[chain[1]] {
						// a helper that is new since the reference tree and is called from a member of the cycle (it may
						// have further callers outside: a parametrised helper merged from two loops)
						fromSCC := false
						if !p.onReferenceTree(TopLevel(f)) {
							if node := p.CG.Nodes[TopLevel(f)]; node != nil {
								for _, e := range node.In {
									if e.Caller != nil && e.Caller.Func != nil && e.Site != nil && e.Site.Common().StaticCallee() == TopLevel(f) && inSCC[fnName(TopLevel(e.Caller.Func))] {
										fromSCC = true
									}
								}
							}
						}
						if !fromSCC {
							extrasOK = false
						}
					}
				}
				if extrasOK {
					key, why, ok = listed, w+" (with extracted helpers)", true
					break
				}
			}
		}
		if !ok {
			// a listed recursion that was moved into helpers: every member is owned by listed recursive functions
			listed := map[string]bool{}
			for l := range recTable {
				for _, x := range strings.Split(l, " + ") {
					listed[x] = true
				}
			}
			all := true
			owner := ""
			for _, f := range comp {
				if listed[fnName(f)] || listed[canon[fnName(f)]] {
					continue
				}
				o, owned := p.ownedByOutside(f, comp, func(nm string) bool { return listed[nm] })
				if !owned {
					all = false
				}
				owner = o
			}
			if all {
				ok, why = true, "recursion of "+owner+" moved into a helper; guard checked by the rule of that function"
			}
		}
		c.check(ok, key, "recursive cycle is a listed one with a checked termination guard", p.Pos(comp[0].Pos()), why, "a recursion that is not in the census: on cyclic resource graphs or repeated errors it may not terminate (stack overflow terminates the gateway)")
	}
	// guards of the subscription state machine cycle
	if fn := p.Fn("(*server.Subscription).unqueueEvents"); fn != nil {
		c.inst(1)
		fEQ := p.Field("server.Subscription.eventQueue")
		pe := p.Method("server.Subscription.processEvent")
		ok := false
		// the draining loop may live in unqueueEvents or in a helper it (alone) calls
		for _, g := range p.Repo {
			in := false
			for _, cand := range p.ownerChain(g) {
				if cand == fnName(fn) {
					in = true
				}
			}
			if !in {
				continue
			}
			for _, call := range callsIn(g) {
				if _, is := isCallTo(call, pe); is {
					for _, st := range p.stores[fEQ] {
						if st.Parent() == g && isNilConst(st.Val) && dominates(st, call) {
							ok = true
						}
					}
					// ... or emptied through a take-all helper called before the loop
					for _, c2 := range callsIn(g) {
						if sf := c2.Common().StaticCallee(); sf != nil && p.takesField(sf, fEQ) && dominates(c2, call) {
							ok = true
						}
					}
				}
			}
		}
		c.check(ok, fnName(fn), "queue emptied before its events are processed (bounds the nested re-entry)", p.Pos(fn.Pos()), "eventQueue = nil dominates the processing loop", "a nested unqueueEvents would process the same events again")
	}
	if fn := p.Fn("(*server.Subscription).handleReaccess"); fn != nil {
		c.inst(1)
		la := p.Method("server.Subscription.loadAccess")
		ok := false
		for _, call := range callsIn(fn) {
			if _, is := isCallTo(call, la); is {
				for _, fFlags := range p.flagFields("server.Subscription.flags") {
					// ... or through a method of the flag member's own type, handed the member's address
					// (`s.flags.clear(flagReaccess)`)
					for _, c2 := range callsIn(fn) {
						if sf := c2.Common().StaticCallee(); sf != nil && p.isRepoFn(sf) && dominates(c2, call) {
							for _, a := range c2.Common().Args {
								if fa, isFA := a.(*ssa.FieldAddr); isFA && fieldOfAddr(fa) == fFlags {
									ok = true
								}
							}
						}
					}
					for _, st := range p.stores[fFlags] {
						if st.Parent() == fn && dominates(st, call) {
							ok = true
						}
						// ... or through a flag helper (clearFlag) called before the request
						for _, c2 := range callsIn(fn) {
							if sf := c2.Common().StaticCallee(); sf != nil && sf == st.Parent() && sf.Parent() == nil && len(sf.Blocks) <= 2 && dominates(c2, call) {
								ok = true
							}
						}
					}
				}
			}
		}
		c.check(ok, fnName(fn), "deferred-reaccess flag cleared before the access request (bounds the nested re-entry)", p.Pos(fn.Pos()), "flags updated before loadAccess", "a nested unqueueEvents would re-enter handleReaccess forever")
	}
}

// ---------------------------------------------------------------------------
// LOCK-ORDER: the lock acquisition graph is acyclic (C15.9)

func ruleLockOrder(c *Ctx) {
	p := c.P
	// which mutex fields a function may acquire, transitively (static calls + invokes; closures folded)
	direct := map[*ssa.Function]map[*types.Var]bool{}
	lockField := func(call *ssa.CallCommon) *types.Var {
		cf := calleeFunc(call)
		if cf == nil || cf.Pkg() == nil || cf.Pkg().Path() != "sync" || (cf.Name() != "Lock" && cf.Name() != "RLock") {
			return nil
		}
		if fa, ok := call.Args[0].(*ssa.FieldAddr); ok {
			return fieldOfAddr(fa)
		}
		return nil
	}
	for _, f := range p.Repo {
		m := map[*types.Var]bool{}
		for _, call := range callsIn(f) {
			if lf := lockField(call.Common()); lf != nil && !unlocksFirst(f, lf) {
				// (a function that first unlocks the mutex runs inside its caller's critical section and only
				// re-takes what it gave up: it acquires nothing from the caller's point of view)
				m[lf] = true
			}
		}
		direct[f] = m
	}
	acq := map[*ssa.Function]map[*types.Var]bool{}
	for _, f := range p.Repo {
		acq[f] = map[*types.Var]bool{}
		for k := range direct[f] {
			acq[f][k] = true
		}
	}
	callees := func(f *ssa.Function, call ssa.CallInstruction) []*ssa.Function {
		var out []*ssa.Function
		if _, isGo := call.(*ssa.Go); isGo {
			return nil
		}
		if sf := call.Common().StaticCallee(); sf != nil {
			if p.isRepoFn(sf) {
				out = append(out, sf)
			}
			return out
		}
		if call.Common().IsInvoke() {
			if n := p.CG.Nodes[f]; n != nil {
				for _, e := range n.Out {
					if e.Site == call && e.Callee.Func != nil && p.isRepoFn(e.Callee.Func) {
						out = append(out, e.Callee.Func)
					}
				}
			}
		}
		if mc, ok := call.Common().Value.(*ssa.MakeClosure); ok {
			out = append(out, mc.Fn.(*ssa.Function))
		}
		return out
	}
	// synchronous hand-offs: f gives a closure away (queue, goroutine) and then blocks on a channel that
	// only that closure closes or sends on — f holds whatever it holds until the closure has run, so the
	// closure's acquisitions count as f's own (Dispose: queue the teardown on the worker, wait for it)
	waits := map[*ssa.Function][]*ssa.Function{}
	for _, f := range p.Repo {
		recvOn := map[ssa.Value]bool{}
		for _, in := range instrsOf(f) {
			switch x := in.(type) {
			case *ssa.UnOp:
				if x.Op == token.ARROW {
					if l, ok := x.X.(*ssa.UnOp); ok && l.Op == token.MUL {
						recvOn[l.X] = true
					} else {
						recvOn[x.X] = true
					}
				}
			case *ssa.Select:
				for _, st := range x.States {
					if st.Dir == types.RecvOnly {
						if l, ok := st.Chan.(*ssa.UnOp); ok && l.Op == token.MUL {
							recvOn[l.X] = true
						} else {
							recvOn[st.Chan] = true
						}
					}
				}
			}
		}
		if len(recvOn) == 0 {
			continue
		}
		for _, in := range instrsOf(f) {
			mc, ok := in.(*ssa.MakeClosure)
			if !ok {
				continue
			}
			cf := mc.Fn.(*ssa.Function)
			for i, b := range mc.Bindings {
				if !recvOn[b] || i >= len(cf.FreeVars) {
					continue
				}
				fv := cf.FreeVars[i]
				signals := false
				for _, cin := range instrsOf(cf) {
					var ch ssa.Value
					if cl, ok := isBuiltinCall(cin, "close"); ok {
						ch = cl.Call.Args[0]
					} else if sd, ok := cin.(*ssa.Send); ok {
						ch = sd.Chan
					}
					if ch == nil {
						continue
					}
					if l, ok := ch.(*ssa.UnOp); ok && l.Op == token.MUL {
						ch = l.X
					}
					if ch == ssa.Value(fv) {
						signals = true
					}
				}
				if signals {
					waits[f] = append(waits[f], cf)
				}
			}
		}
	}
	for changed := true; changed; {
		changed = false
		for _, f := range p.Repo {
			for _, g := range waits[f] {
				for k := range acq[g] {
					if !acq[f][k] {
						acq[f][k] = true
						changed = true
					}
				}
			}
			for _, call := range callsIn(f) {
				for _, g := range callees(f, call) {
					for k := range acq[g] {
						if !acq[f][k] {
							acq[f][k] = true
							changed = true
						}
					}
				}
			}
		}
	}
	// edges A -> B: while A is held in f (flow-insensitively between Lock and the matching Unlock), B is acquired
	edges := map[string]string{}
	name := func(v *types.Var) string { return fieldOwner(p, v) + "." + v.Name() }
	for _, f := range p.Repo {
		for a := range direct[f] {
			st := lockStates(f, a, 0)
			// deferred unlocks keep the lock to the end: lockStates sees only explicit Unlock calls — fine
			for _, call := range callsIn(f) {
				if st[call] != 1 {
					continue
				}
				if lf := lockField(call.Common()); lf != nil && lf != a {
					edges[name(a)+" -> "+name(lf)] = fnName(f)
				}
				for _, g := range callees(f, call) {
					for b := range acq[g] {
						if b != a {
							edges[name(a)+" -> "+name(b)] = fnName(f) + " calls " + fnName(g)
						} else if g != f {
							// re-acquiring the same non-reentrant mutex through a callee
							if !unlocksFirst(g, a) {
								edges[name(a)+" -> "+name(a)] = fnName(f) + " calls " + fnName(g)
							}
						}
					}
				}
			}
		}
	}
	// the event subscription's mutex is also held where no Lock call is in sight: by every task its worker
	// runs (Enqueue / enqueueUnlock) and by what those call. A callee that takes it again deadlocks the worker.
	if esMu := p.Field("rescache.EventSubscription.mu"); esMu != nil {
		for f, st := range p.esLockStates(esMu) {
			if direct[f][esMu] {
				continue // has its own Lock calls: handled above
			}
			for _, call := range callsIn(f) {
				if st[call] != 1 {
					continue
				}
				for _, g := range callees(f, call) {
					for b := range acq[g] {
						if b != esMu {
							edges[name(esMu)+" -> "+name(b)] = fnName(f) + " calls " + fnName(g)
						} else if g != f && !unlocksFirst(g, esMu) {
							edges[name(esMu)+" -> "+name(esMu)] = fnName(f) + " (run with the lock held) calls " + fnName(g)
						}
					}
				}
			}
		}
	}
	// cycle check
	g := map[string][]string{}
	var keys []string
	for e := range edges {
		keys = append(keys, e)
		parts := strings.Split(e, " -> ")
		g[parts[0]] = append(g[parts[0]], parts[1])
	}
	sort.Strings(keys)
	color := map[string]int{}
	cycle := ""
	var dfs func(v string, path []string)
	dfs = func(v string, path []string) {
		color[v] = 1
		for _, w := range g[v] {
			if color[w] == 1 {
				cycle = strings.Join(append(path, v, w), " -> ")
			} else if color[w] == 0 {
				dfs(w, append(path, v))
			}
		}
		color[v] = 2
	}
	var nodes []string
	for v := range g {
		nodes = append(nodes, v)
	}
	sort.Strings(nodes)
	for _, v := range nodes {
		if color[v] == 0 {
			dfs(v, nil)
		}
	}
	c.inst(len(keys))
	var parts []string
	for _, k := range keys {
		parts = append(parts, k+" ["+edges[k]+"]")
	}
	detail := strings.Join(parts, "; ")
	if cycle != "" {
		c.viol("lock order", "mutex acquisition graph is acyclic", "-", "cycle: "+cycle+" (edges: "+detail+"): two goroutines can deadlock and stall every resource and connection behind these locks")
	} else {
		c.ok("lock order", "mutex acquisition graph is acyclic", "-", fmt.Sprintf("%d edges: %s", len(keys), detail))
	}
}

// unlocksFirst: g releases mutex a before (re)acquiring it — the callee runs
// inside an unlock window of its caller.
func unlocksFirst(g *ssa.Function, a *types.Var) bool {
	for _, b := range g.Blocks {
		for _, in := range b.Instrs {
			if call, ok := in.(*ssa.Call); ok {
				if cf := calleeFunc(&call.Call); cf != nil && cf.Pkg() != nil && cf.Pkg().Path() == "sync" {
					if fa, ok := call.Call.Args[0].(*ssa.FieldAddr); ok && fieldOfAddr(fa) == a {
						return cf.Name() == "Unlock"
					}
				}
			}
		}
	}
	return false
}

// requeueThroughParam: `q.items = append(rest, q.items...)` in a wrapper
// method, where every caller passes `snapshot[i+1:]` of a snapshot taken from
// the same queue (a load of the field or the result of its take-all helper):
// the re-queue form, seen through the method's parameter.
func (p *Prog) requeueThroughParam(st *ssa.Store, f *types.Var) string {
	call, ok := st.Val.(*ssa.Call)
	if !ok || len(call.Call.Args) < 2 {
		return ""
	}
	if lf, _ := fieldLoad(call.Call.Args[1]); lf != f {
		return ""
	}
	prm, ok := call.Call.Args[0].(*ssa.Parameter)
	if !ok {
		return ""
	}
	fn := st.Parent()
	idx := -1
	for i, q := range fn.Params {
		if q == prm {
			idx = i
		}
	}
	node := p.CG.Nodes[fn]
	if idx < 0 || node == nil {
		return ""
	}
	n := 0
	for _, e := range node.In {
		if e.Site == nil || e.Site.Common().StaticCallee() != fn {
			continue
		}
		args := e.Site.Common().Args
		if idx >= len(args) {
			return ""
		}
		sl, ok := args[idx].(*ssa.Slice)
		if !ok || sl.Low == nil || sl.High != nil {
			return ""
		}
		src := sl.X
		if u, ok := src.(*ssa.UnOp); ok && u.Op == token.MUL {
			if al, ok := u.X.(*ssa.Alloc); ok {
				for _, r := range *al.Referrers() {
					if s2, ok := r.(*ssa.Store); ok && s2.Addr == ssa.Value(al) {
						src = s2.Val
					}
				}
			}
		}
		okSrc := false
		if lf, _ := fieldLoad(src); lf == f {
			okSrc = true
		}
		if c2, ok := src.(*ssa.Call); ok {
			if sf := c2.Call.StaticCallee(); sf != nil && p.takesField(sf, f) {
				okSrc = true
			}
		}
		if !okSrc {
			return ""
		}
		n++
	}
	if n > 0 {
		return "requeue"
	}
	return ""
}
