package main

import (
	"fmt"
	"go/token"
	"go/types"
	"strings"

	"golang.org/x/tools/go/ssa"
)

// mqSites returns the call sites of mq.Client.SendRequest / Subscribe in the
// gateway (not inside the adapter).
func mqSites(p *Prog) []ssa.CallInstruction {
	send := p.Method("mq.Client.SendRequest")
	sub := p.Method("mq.Client.Subscribe")
	var out []ssa.CallInstruction
	for _, f := range p.Repo {
		for _, call := range callsIn(f) {
			if _, ok := isCallTo(call, send, sub); ok {
				out = append(out, call)
			}
		}
	}
	return out
}

// C14.1/.2: every subject operand is built from validated / trusted parts and
// never from the query part of a resource id.
func ruleSubjectProv(c *Ctx) {
	p := c.P
	// service-addressed subjects: decoded from service events, listed exceptions
	serviceSubject := map[*types.Var]string{}
	for _, q := range []string{"codec.QueryEvent.Subject", "codec.SystemTokenReset.Subject"} {
		if f := p.Field(q); f != nil {
			serviceSubject[f] = q
		}
	}
	trust := func(f *types.Var) (Leaf, bool) {
		if q, ok := serviceSubject[f]; ok {
			return Leaf{Kind: "service-subject", Desc: q}, true
		}
		return Leaf{}, false
	}
	for _, site := range mqSites(p) {
		c.inst(1)
		subj := callArgs(site.Common())[1]
		leaves := p.Trace(subj, site, trust)
		name := fnName(site.Parent())
		pos := p.InstrPos(site)
		var bad, kinds []string
		for _, l := range leaves {
			kinds = append(kinds, l.Kind+":"+l.Desc)
			switch l.Kind {
			case "const", "validated", "trusted", "service-subject":
			case "query":
				bad = append(bad, "the query part of a resource id reaches the subject ("+l.Desc+" @"+l.Pos+")")
			default:
				bad = append(bad, fmt.Sprintf("unvalidated %s input reaches the subject: %s @%s via %s", l.Kind, l.Desc, l.Pos, l.Via))
			}
		}
		what := "subject assembled from validated or trusted parts only (" + calleeFunc(site.Common()).Name() + ")"
		if len(bad) > 3 {
			bad = bad[:3]
		}
		c.check(len(bad) == 0, name, what, pos, fmt.Sprintf("%d leaves: %s", len(leaves), strings.Join(kinds, "; ")), strings.Join(bad, " | "))
	}
}

// ---------------------------------------------------------------------------
// PROV/token-cid (C05.3, C10.1): every service request carries the
// requesting connection's own id and its current token.

func ruleTokenCID(c *Ctx) {
	p := c.P
	fTok := p.Field("server.wsConn.token")
	type tgt struct {
		f        *types.Func
		tokIdx   int
		reqIdx   int // requester / subscriber argument
		isAccess bool
	}
	tgts := []tgt{
		{p.Method("rescache.Cache.Access"), 2, 1, true},
		{p.Method("rescache.Cache.Call"), 5, 1, false},
		{p.Method("rescache.Cache.Auth"), 5, 1, false},
		{p.Method("rescache.Cache.CustomAuth"), 4, 1, false},
	}
	subscribeM := []*types.Func{p.Method("server.wsConn.Subscribe"), p.Method("server.wsConn.subscribe")}
	newSub := p.PkgFunc("server.NewSubscription")
	// cellKey: identity of "the connection variable" across loads
	connKey := func(v ssa.Value) string {
		v = stripConv(v)
		if u, ok := v.(*ssa.UnOp); ok && u.Op == token.MUL {
			switch x := u.X.(type) {
			case *ssa.FreeVar:
				return "fv:" + x.Name()
			case *ssa.Alloc:
				return "cell:" + x.Comment
			}
		}
		if prm, ok := v.(*ssa.Parameter); ok {
			return "param:" + prm.Name()
		}
		return "v:" + v.Name()
	}
	for _, fn := range p.Repo {
		if fn.Pkg == nil || fn.Pkg.Pkg.Name() != "server" {
			if fn.Parent() == nil || TopLevel(fn).Pkg == nil || TopLevel(fn).Pkg.Pkg.Name() != "server" {
				continue
			}
		}
		for _, call := range callsIn(fn) {
			cf := calleeFunc(call.Common())
			for _, tg := range tgts {
				if tg.f == nil || cf != tg.f {
					continue
				}
				c.inst(1)
				args := callArgs(call.Common())
				name := fnName(fn)
				pos := p.InstrPos(call)
				what := "request carries the connection's current token and its own id (" + tg.f.Name() + ")"
				tok := stripConv(args[tg.tokIdx])
				f, base := fieldLoad(tok)
				if f != fTok {
					c.viol(name, what, pos, "the token argument is not a read of the connection's token at the time of the request (a token captured earlier may be stale after a token event)")
					continue
				}
				if tok.(ssa.Instruction).Parent() != fn {
					c.viol(name, what, pos, "token read in a different task than the request")
					continue
				}
				ck := connKey(base)
				// requester must be the same connection
				bad := ""
				req := stripConv(args[tg.reqIdx])
				if !tg.isAccess {
					if connKey(req) != ck {
						bad = "requester argument is not the connection whose token is sent"
					}
				} else {
					// subscriber: created for / obtained from the same connection, or the method's own parameter
					r := req
					if lv := p.localObjectField(r); lv != nil {
						r = stripConv(lv) // kept in a field of a parameter object built by this function
					}
					if u, ok := r.(*ssa.UnOp); ok && u.Op == token.MUL {
						// cell: find its single store
						if al, ok := u.X.(*ssa.Alloc); ok {
							for _, rr := range *al.Referrers() {
								if st, ok := rr.(*ssa.Store); ok && st.Addr == ssa.Value(al) {
									r = stripConv(st.Val)
								}
							}
						} else if fv, ok := u.X.(*ssa.FreeVar); ok {
							// captured: look at the binding's store in the parent
							if mc := p.parent[fv.Parent()]; mc != nil {
								for i, x := range fv.Parent().FreeVars {
									if x == fv {
										if al, ok := mc.Bindings[i].(*ssa.Alloc); ok {
											for _, rr := range *al.Referrers() {
												if st, ok := rr.(*ssa.Store); ok && st.Addr == ssa.Value(al) {
													r = stripConv(st.Val)
												}
											}
										}
									}
								}
							}
						}
					}
					okSub := false
					switch x := r.(type) {
					case *ssa.Parameter:
						okSub = true // wsConn.Access(s, cb): s.c == c by construction of the caller (s.c.Access(s, …))
					case *ssa.Extract:
						if cl, ok := x.Tuple.(*ssa.Call); ok {
							if _, is := isCallTo(cl, subscribeM...); is {
								okSub = true
							}
						}
					case *ssa.Call:
						if calleeFunc(&x.Call) == newSub {
							okSub = true
						}
					case *ssa.Phi:
						okSub = true
						for _, e := range x.Edges {
							e = stripConv(e)
							good := false
							if cl, ok := e.(*ssa.Call); ok && calleeFunc(&cl.Call) == newSub {
								good = true
							}
							if ex, ok := e.(*ssa.Extract); ok {
								if _, isLk := ex.Tuple.(*ssa.Lookup); isLk {
									good = true
								}
							}
							if !good {
								okSub = false
							}
						}
					}
					if !okSub {
						bad = "subscription passed to the access request is not one created for this connection"
					}
				}
				c.check(bad == "", name, what, pos, "token is c.token read in the requesting task; requester is the same connection", bad)
			}
		}
	}
	// the payload builders put the requester's cid and the given token into the request
	for _, nm := range []string{"codec.CreateRequest", "codec.CreateAuthRequest"} {
		fn := p.Fn(nm)
		if fn == nil {
			c.undecided(nm, "anchor", "-", "not found")
			continue
		}
		c.inst(1)
		fCID := p.Field("codec.Request.CID")
		fToken := p.Field("codec.Request.Token")
		okCID, okTok := false, false
		// the literal may be built in a helper (newRequest(r, params, query, token, isHTTP)): what the helper
		// stores from its own parameters comes from this function's parameters at the helper's call sites
		scope := map[*ssa.Function]bool{fn: true}
		for _, g := range staticCallees(p, fn) {
			scope[g] = true
		}
		fromParam := func(v ssa.Value, g *ssa.Function, wantName string) bool {
			prm, isP := v.(*ssa.Parameter)
			if !isP {
				return false
			}
			if g == fn {
				return wantName == "" || prm.Name() == wantName
			}
			idx := -1
			for i, pp := range g.Params {
				if pp == prm {
					idx = i
				}
			}
			if idx < 0 {
				return false
			}
			n := 0
			for _, call := range callsIn(fn) {
				if call.Common().StaticCallee() != g {
					continue
				}
				n++
				args := callArgs(call.Common())
				if idx >= len(args) {
					return false
				}
				av := stripConv(args[idx])
				if ci, isCI := av.(*ssa.ChangeInterface); isCI {
					av = ci.X // an AuthRequester handed on as the Requester it embeds
				}
				ap, isAP := av.(*ssa.Parameter)
				if !isAP || (wantName != "" && ap.Name() != wantName) {
					return false
				}
			}
			return n > 0
		}
		for _, st := range p.stores[fCID] {
			if scope[st.Parent()] {
				if call, ok := st.Val.(*ssa.Call); ok && call.Call.IsInvoke() && call.Call.Method.Name() == "CID" {
					if fromParam(call.Call.Value, st.Parent(), "") {
						okCID = true
					}
				}
			}
		}
		for _, st := range p.stores[fToken] {
			if scope[st.Parent()] {
				if fromParam(st.Val, st.Parent(), "token") {
					okTok = true
				}
			}
		}
		c.check(okCID && okTok, nm, "payload cid is the requester's CID() and token is the token argument", p.Pos(fn.Pos()), "struct literal fields", fmt.Sprintf("cid from requester=%v token from argument=%v", okCID, okTok))
	}
	// accessors
	for _, a := range []struct{ fn, field string }{{"(*server.wsConn).CID", "server.wsConn.cid"}, {"(*server.wsConn).Token", "server.wsConn.token"}} {
		fn := p.Fn(a.fn)
		if fn == nil {
			continue
		}
		c.inst(1)
		ok := false
		allInstrs(fn, func(in ssa.Instruction) {
			if r, isR := in.(*ssa.Return); isR && len(r.Results) == 1 {
				if f, _ := fieldLoad(r.Results[0]); f == p.Field(a.field) {
					ok = true
				}
			}
		})
		c.check(ok, a.fn, "returns the connection's own "+a.field, p.Pos(fn.Pos()), "single field read", "accessor returns something else")
	}
}

// ---------------------------------------------------------------------------
// PROV/cid-taint (C10.2, C10.3): expanded names never travel to clients

func ruleCIDTaint(c *Ctx) {
	p := c.P
	tainted := map[*types.Var]string{}
	for _, q := range []string{"server.wsConn.cid", "server.wsConn.connStr", "server.Subscription.resourceName", "server.Subscription.resourceQuery", "rescache.EventSubscription.ResourceName"} {
		if f := p.Field(q); f != nil {
			tainted[f] = q
		} else {
			c.undecided(q, "anchor", "-", "field not found")
		}
	}
	trust := func(f *types.Var) (Leaf, bool) {
		if q, ok := tainted[f]; ok {
			return Leaf{Kind: "expanded", Desc: q}, true
		}
		// service payload fields are the service's business
		return Leaf{}, false
	}
	newEvent := p.PkgFunc("rpc.NewEvent")
	ridToPath := p.PkgFunc("server.RIDToPath")
	resFields := map[*types.Var]bool{}
	for _, q := range []string{"rpc.Resources.Models", "rpc.Resources.Collections", "rpc.Resources.Errors"} {
		if f := p.Field(q); f != nil {
			resFields[f] = true
		}
	}
	fRID := p.Field("rpc.CallResourceResult.RID")
	check := func(fn *ssa.Function, in ssa.Instruction, v ssa.Value, what string) {
		c.inst(1)
		leaves := p.Trace(v, in, trust)
		bad := ""
		for _, l := range leaves {
			if l.Kind == "expanded" {
				bad = "a value derived from " + l.Desc + " (connection id / {cid}-expanded name) reaches the client via " + l.Via
			}
		}
		c.check(bad == "", fnName(fn), what, p.InstrPos(in), fmt.Sprintf("%d leaves, none derived from the connection id or an expanded resource name", len(leaves)), bad)
	}
	// error objects travel to the client as they are: a message composed in the gateway names no expanded id
	fMsg := p.Field("reserr.Error.Message")
	for _, fn := range p.Repo {
		top := TopLevel(fn)
		if top.Pkg == nil || fMsg == nil || (top.Pkg.Pkg.Name() != "server" && top.Pkg.Pkg.Name() != "rescache") {
			continue
		}
		allInstrs(fn, func(in ssa.Instruction) {
			if st, ok := in.(*ssa.Store); ok {
				if fa, ok := st.Addr.(*ssa.FieldAddr); ok && fieldOfAddr(fa) == fMsg {
					if _, isC := st.Val.(*ssa.Const); !isC {
						check(fn, in, st.Val, "an error message composed by the gateway names no connection id or expanded resource id")
					}
				}
			}
		})
	}
	for _, fn := range p.Repo {
		if fn.Pkg == nil && fn.Parent() == nil {
			continue
		}
		top := TopLevel(fn)
		if top.Pkg == nil || top.Pkg.Pkg.Name() != "server" {
			continue
		}
		allInstrs(fn, func(in ssa.Instruction) {
			switch x := in.(type) {
			case ssa.CallInstruction:
				cf := calleeFunc(x.Common())
				if cf != nil && cf == newEvent {
					check(fn, in, x.Common().Args[0], "client event names the resource by the id the client used")
				}
				if cf != nil && cf == ridToPath {
					check(fn, in, x.Common().Args[0], "HTTP href / Location built from the unexpanded id")
				}
			case *ssa.MapUpdate:
				if f, _ := fieldLoad(x.Map); resFields[f] {
					check(fn, in, x.Key, "resource set keyed by the id the client used")
				}
			case *ssa.Store:
				if fa, ok := x.Addr.(*ssa.FieldAddr); ok && fieldOfAddr(fa) == fRID {
					check(fn, in, x.Val, "resource response names the resource by its unexpanded id")
				}
			}
		})
	}
	// who may call ExpandCID
	expand := []*types.Func{p.Method("server.wsConn.ExpandCID"), p.Method("server.ConnSubscriber.ExpandCID")}
	allowed := map[string]bool{"server.NewSubscription": true, "(*server.wsConn).AuthResource": true, "(*server.wsConn).AuthResourceNoResult": true}
	for _, fn := range p.Repo {
		for _, call := range callsIn(fn) {
			if _, ok := isCallTo(call, expand...); ok {
				c.inst(1)
				top := fnName(TopLevel(fn))
				c.check(allowed[top], top, "ExpandCID used on the service-facing side only", p.InstrPos(call), "listed caller: result goes to parseRID → resourceName/Query or Cache.Auth", "ExpandCID called from an unlisted place")
			}
		}
	}
	// ExpandCID replaces every tag
	if fn := p.Fn("(*server.wsConn).ExpandCID"); fn != nil {
		c.inst(1)
		ok := false
		other := ""
		for _, call := range callsIn(fn) {
			nm := calleeName(call.Common())
			switch nm {
			case "strings.ReplaceAll":
				ok = true
			case "strings.Replace":
				if k, isC := constInt(call.Common().Args[3]); isC && k < 0 {
					ok = true
				} else {
					other = "strings.Replace with a bounded count"
				}
			default:
				if strings.HasPrefix(nm, "strings.") {
					other = nm
				}
			}
		}
		if other != "" {
			c.viol(fnName(fn), "every {cid} tag is expanded", p.Pos(fn.Pos()), "uses "+other+": only some of the tags of a resource id would be expanded (the rest reach the services literally)")
		} else if ok {
			c.ok(fnName(fn), "every {cid} tag is expanded", p.Pos(fn.Pos()), "strings.Replace(…, -1) / ReplaceAll")
		} else {
			c.ok(fnName(fn), "every {cid} tag is expanded", p.Pos(fn.Pos()), "form not recognised: not decided")
		}
	}
	// the id set of a token reset is read later, on each connection's worker: it belongs to the event that
	// made it — a map made in the handling function, not one kept in (and refilled through) shared state
	if fn := p.Fn("(*rescache.Cache).handleSystemTokenReset"); fn != nil {
		tr := p.Method("rescache.Conn.TokenReset")
		for _, g := range p.withHelpers(fn) {
			for _, call := range callsIn(g) {
				if _, ok := isCallTo(call, tr); !ok {
					continue
				}
				c.inst(1)
				arg := callArgs(call.Common())[1]
				bad := ""
				seen := map[ssa.Value]bool{}
				var origins func(v ssa.Value, d int)
				origins = func(v ssa.Value, d int) {
					if seen[v] || d > 8 {
						return
					}
					seen[v] = true
					switch x := v.(type) {
					case *ssa.MakeMap:
						// must not also be stored into a field
						for _, r := range *x.Referrers() {
							if st, ok := r.(*ssa.Store); ok && st.Val == ssa.Value(x) {
								if _, isF := st.Addr.(*ssa.FieldAddr); isF {
									bad = "the set is also kept in a field (" + p.InstrPos(st) + "): the next event refills the map a queued TokenReset task of an earlier event still reads"
								}
							}
						}
					case *ssa.Phi:
						for _, e := range x.Edges {
							origins(e, d+1)
						}
					case *ssa.UnOp:
						if f, _ := fieldLoad(x); f != nil {
							bad = "the set is loaded from field " + f.Name() + ": it is shared between events while queued TokenReset tasks of earlier events still read it"
							return
						}
						if al, ok := x.X.(*ssa.Alloc); ok {
							for _, r := range *al.Referrers() {
								if st, ok := r.(*ssa.Store); ok && st.Addr == ssa.Value(al) {
									origins(st.Val, d+1)
								}
							}
						}
					case *ssa.Parameter:
						// handed in by a caller inside the handling function's helpers: follow the call sites
						if n := p.CG.Nodes[x.Parent()]; n != nil {
							for i, prm := range x.Parent().Params {
								if prm != x {
									continue
								}
								for _, e := range n.In {
									if e.Site != nil && e.Site.Common().StaticCallee() == x.Parent() && i < len(e.Site.Common().Args) {
										origins(e.Site.Common().Args[i], d+1)
									}
								}
							}
						}
					case *ssa.Call:
						// made by a helper of the handling function: what the helper returns
						if sf := x.Call.StaticCallee(); sf != nil && p.isRepoFn(sf) && len(sf.Blocks) > 0 {
							for _, in := range instrsOf(sf) {
								if r, isR := in.(*ssa.Return); isR && len(r.Results) == 1 {
									origins(r.Results[0], d+1)
								}
							}
						} else {
							bad = "the set handed to the connections is not a map made by the handling function"
						}
					default:
						bad = "the set handed to the connections is not a map made by the handling function"
					}
				}
				origins(arg, 0)
				c.check(bad == "", fnName(g), "the id set of a token reset belongs to its event", p.InstrPos(call), "a map made in the handling function and kept nowhere else", bad)
			}
		}
	}
	// token reset filtered by the connection's own tid
	if fn := p.Fn("(*server.wsConn).TokenReset"); fn != nil {
		fTid := p.Field("server.wsConn.tid")
		custom := p.Method("rescache.Cache.CustomAuth")
		for _, g := range WithClosures(fn) {
			for _, call := range callsIn(g) {
				if _, ok := isCallTo(call, custom); !ok {
					continue
				}
				c.inst(1)
				lookupGuard := func(i *ssa.If) (bool, bool) {
					v := i.Cond
					neg := false
					if u, ok := v.(*ssa.UnOp); ok && u.Op == token.NOT {
						v, neg = u.X, true
					}
					if lk, ok := v.(*ssa.Lookup); ok {
						if f, _ := fieldLoad(lk.Index); f == fTid {
							return !neg, true
						}
					}
					return false, false
				}
				gd := p.guardedBy(call, lookupGuard)
				c.check(gd != nil, fnName(g), "token reset re-authenticates only connections whose own token id is listed", p.InstrPos(call), "dominated by tids[c.tid]", "auth request sent for connections that are not addressed by the token reset")
				// a connection without a token id is addressed by no reset: an empty id in the event's list
				// (null or "" entry) must not select every anonymous or id-less connection
				c.inst(1)
				nonEmpty := func(i *ssa.If) (bool, bool) {
					b, ok := i.Cond.(*ssa.BinOp)
					if !ok || (b.Op != token.EQL && b.Op != token.NEQ) {
						return false, false
					}
					for _, pr := range [][2]ssa.Value{{b.X, b.Y}, {b.Y, b.X}} {
						if s, isS := constString(pr[1]); isS && s == "" {
							if f, _ := fieldLoad(pr[0]); f == fTid {
								return b.Op == token.NEQ, true
							}
						}
					}
					return false, false
				}
				c.check(p.guardedBy(call, nonEmpty) != nil, fnName(g), "a connection without a token id is addressed by no token reset", p.InstrPos(call), "dominated by c.tid != \"\"", "a token reset listing an empty id re-authenticates every connection that has no token id — with that connection's own id and token sent to the reset's subject")
			}
		}
	}
}

// localObjectField: v is a load of a field of a struct that the enclosing
// top-level function allocates itself (a parameter object: `hc := &httpCall{sub:
// NewSubscription(…)}` … `hc.sub`), the field is written only while such
// objects are under construction, and the allocation has exactly one store to
// it: the value stored there. Otherwise nil.
func (p *Prog) localObjectField(v ssa.Value) ssa.Value {
	u, ok := v.(*ssa.UnOp)
	if !ok || u.Op != token.MUL {
		return nil
	}
	fa, ok := u.X.(*ssa.FieldAddr)
	if !ok {
		return nil
	}
	f := fieldOfAddr(fa)
	if f == nil || !p.initOnlyField(f) {
		return nil
	}
	var baseAlloc func(x ssa.Value, d int) *ssa.Alloc
	cellContent := func(al *ssa.Alloc) ssa.Value {
		var val ssa.Value
		n := 0
		for _, rr := range *al.Referrers() {
			if st, ok := rr.(*ssa.Store); ok && st.Addr == ssa.Value(al) {
				val = st.Val
				n++
			}
		}
		if n == 1 {
			return val
		}
		return nil
	}
	baseAlloc = func(x ssa.Value, d int) *ssa.Alloc {
		if d > 6 {
			return nil
		}
		switch y := stripConv(x).(type) {
		case *ssa.Alloc:
			if pt, ok := y.Type().Underlying().(*types.Pointer); ok {
				if _, isStruct := pt.Elem().Underlying().(*types.Struct); isStruct {
					return y
				}
			}
		case *ssa.UnOp:
			if y.Op != token.MUL {
				return nil
			}
			switch c := y.X.(type) {
			case *ssa.Alloc:
				if cv := cellContent(c); cv != nil {
					return baseAlloc(cv, d+1)
				}
			case *ssa.FreeVar:
				if mc := p.parent[c.Parent()]; mc != nil {
					for i, fv := range c.Parent().FreeVars {
						if fv == c && i < len(mc.Bindings) {
							switch b := mc.Bindings[i].(type) {
							case *ssa.Alloc:
								if cv := cellContent(b); cv != nil {
									return baseAlloc(cv, d+1)
								}
							case *ssa.FreeVar:
								return baseAlloc(&ssa.UnOp{Op: token.MUL, X: b}, d+1)
							}
						}
					}
				}
			}
		}
		return nil
	}
	al := baseAlloc(fa.X, 0)
	if al == nil {
		return nil
	}
	var val ssa.Value
	n := 0
	for _, st := range p.stores[f] {
		if sfa, ok := st.Addr.(*ssa.FieldAddr); ok && sfa.X == ssa.Value(al) {
			val = st.Val
			n++
		}
	}
	if n == 1 {
		return val
	}
	return nil
}
