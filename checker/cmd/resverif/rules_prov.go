package main

import (
	"fmt"
	"go/types"
	"strings"

	"golang.org/x/tools/go/ssa"
)

// mqSites returns the call sites of mq.Client.SendRequest / Subscribe in the
// gateway (not inside the adapter).
func mqSites(p *Prog) []ssa.CallInstruction {
	send := p.Method("mq.Client.SendRequest")
	sub := p.Method("mq.Client.Subscribe")
	var out []ssa.CallInstruction
	for _, f := range p.Repo {
		for _, call := range callsIn(f) {
			if _, ok := isCallTo(call, send, sub); ok {
				out = append(out, call)
			}
		}
	}
	return out
}

// C14.1/.2: every subject operand is built from validated / trusted parts and
// never from the query part of a resource id.
func ruleSubjectProv(c *Ctx) {
	p := c.P
	// service-addressed subjects: decoded from service events, listed exceptions
	serviceSubject := map[*types.Var]string{}
	for _, q := range []string{"codec.QueryEvent.Subject", "codec.SystemTokenReset.Subject"} {
		if f := p.Field(q); f != nil {
			serviceSubject[f] = q
		}
	}
	trust := func(f *types.Var) (Leaf, bool) {
		if q, ok := serviceSubject[f]; ok {
			return Leaf{Kind: "service-subject", Desc: q}, true
		}
		return Leaf{}, false
	}
	for _, site := range mqSites(p) {
		c.inst(1)
		subj := callArgs(site.Common())[1]
		leaves := p.Trace(subj, site, trust)
		name := fnName(site.Parent())
		pos := p.InstrPos(site)
		var bad, kinds []string
		for _, l := range leaves {
			kinds = append(kinds, l.Kind+":"+l.Desc)
			switch l.Kind {
			case "const", "validated", "trusted", "service-subject":
			case "query":
				bad = append(bad, "the query part of a resource id reaches the subject ("+l.Desc+" @"+l.Pos+")")
			default:
				bad = append(bad, fmt.Sprintf("unvalidated %s input reaches the subject: %s @%s via %s", l.Kind, l.Desc, l.Pos, l.Via))
			}
		}
		what := "subject assembled from validated or trusted parts only (" + calleeFunc(site.Common()).Name() + ")"
		if len(bad) > 3 {
			bad = bad[:3]
		}
		c.check(len(bad) == 0, name, what, pos, fmt.Sprintf("%d leaves: %s", len(leaves), strings.Join(kinds, "; ")), strings.Join(bad, " | "))
	}
}
