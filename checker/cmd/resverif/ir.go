package main

import (
	"go/constant"
	"go/token"
	"go/types"
	"strings"

	"golang.org/x/tools/go/ssa"
)

// calleeFunc returns the types.Func that a call targets: the static callee's
// object, or the interface method for an invoke. nil for dynamic calls of
// function values and builtins.
func calleeFunc(c *ssa.CallCommon) *types.Func {
	if c.IsInvoke() {
		return c.Method
	}
	if f := c.StaticCallee(); f != nil {
		if o, ok := f.Object().(*types.Func); ok {
			return o
		}
		// bound method wrapper / thunk: recover the method
		if f.Synthetic != "" && len(f.FreeVars) == 1 && strings.HasSuffix(f.Name(), "$bound") {
			return boundMethod(f)
		}
	}
	return nil
}

func boundMethod(f *ssa.Function) *types.Func {
	for _, b := range f.Blocks {
		for _, in := range b.Instrs {
			if c, ok := in.(ssa.CallInstruction); ok {
				if o := calleeFunc(c.Common()); o != nil {
					return o
				}
			}
		}
	}
	return nil
}

// calleeName returns a short printable name of what is called.
func calleeName(c *ssa.CallCommon) string {
	if c.IsInvoke() {
		return shortName(c.Value.Type().String()) + "." + c.Method.Name()
	}
	if f := c.StaticCallee(); f != nil {
		return fnName(f)
	}
	if b, ok := c.Value.(*ssa.Builtin); ok {
		return "builtin." + b.Name()
	}
	return "dynamic(" + c.Value.Name() + ")"
}

// callArgs returns the actual arguments of a call with the receiver first
// for both static method calls and invokes.
func callArgs(c *ssa.CallCommon) []ssa.Value {
	if c.IsInvoke() {
		return append([]ssa.Value{c.Value}, c.Args...)
	}
	return c.Args
}

func isNilConst(v ssa.Value) bool {
	c, ok := v.(*ssa.Const)
	return ok && c.Value == nil
}

func constBool(v ssa.Value) (bool, bool) {
	c, ok := v.(*ssa.Const)
	if !ok || c.Value == nil || c.Value.Kind() != constant.Bool {
		return false, false
	}
	return constant.BoolVal(c.Value), true
}

func constInt(v ssa.Value) (int64, bool) {
	c, ok := v.(*ssa.Const)
	if !ok || c.Value == nil || c.Value.Kind() != constant.Int {
		return 0, false
	}
	i, ok := constant.Int64Val(c.Value)
	return i, ok
}

func constString(v ssa.Value) (string, bool) {
	c, ok := v.(*ssa.Const)
	if !ok || c.Value == nil || c.Value.Kind() != constant.String {
		return "", false
	}
	return constant.StringVal(c.Value), true
}

// stripConv looks through value-preserving conversions.
func stripConv(v ssa.Value) ssa.Value {
	for {
		switch x := v.(type) {
		case *ssa.ChangeType:
			v = x.X
		case *ssa.ChangeInterface:
			v = x.X
		case *ssa.MakeInterface:
			v = x.X
		case *ssa.Convert:
			v = x.X
		default:
			return v
		}
	}
}

// fieldLoad reports whether v is a load `*(&base.f)` (or Field extraction) and
// returns the field and the base value.
func fieldLoad(v ssa.Value) (*types.Var, ssa.Value) {
	switch x := v.(type) {
	case *ssa.UnOp:
		if x.Op == token.MUL {
			if fa, ok := x.X.(*ssa.FieldAddr); ok {
				return fieldOfAddr(fa), fa.X
			}
			// `*q` in a pointer-receiver method of a container type that exactly one field has
			if prm, ok := x.X.(*ssa.Parameter); ok {
				if f := containerFieldOfRecv(prm); f != nil {
					return f, nil
				}
			}
		}
	case *ssa.Parameter:
		// the value receiver of a method of such a container type
		if f := containerFieldOfRecv(x); f != nil {
			return f, nil
		}
	case *ssa.Field:
		if st, ok := x.X.Type().Underlying().(*types.Struct); ok {
			return st.Field(x.Field), x.X
		}
	}
	return nil, nil
}

// isLogCall reports whether a call is to a logging / tracing / metrics
// helper: such calls are never sinks, guards or consumptions.
func isLogCall(c *ssa.CallCommon) bool {
	f := calleeFunc(c)
	if f == nil {
		return false
	}
	switch f.Name() {
	case "Logf", "Debugf", "Errorf", "Tracef", "Log", "Debug", "Error", "Trace", "IsDebug", "IsTrace":
		return true
	}
	if f.Pkg() != nil {
		pp := f.Pkg().Path()
		if strings.HasPrefix(pp, "github.com/bsm/openmetrics") || strings.HasSuffix(pp, "/logger") || strings.HasSuffix(pp, "server/metrics") {
			return true
		}
		if pp == "fmt" {
			return true
		}
	}
	return false
}

// dominates reports whether instruction a dominates instruction b (same
// function). Within a block, order decides.
func dominates(a, b ssa.Instruction) bool {
	ba, bb := a.Block(), b.Block()
	if ba == bb {
		for _, in := range ba.Instrs {
			if in == a {
				return true
			}
			if in == b {
				return false
			}
		}
		return false
	}
	return ba.Dominates(bb)
}

// edgeDominates reports whether every path to block b passes through the
// CFG edge from->to (to must be a successor of from).
func edgeDominates(from, to, b *ssa.BasicBlock) bool {
	if !to.Dominates(b) {
		return false
	}
	// to must be entered only via from (otherwise the edge itself is not
	// dominating) - except for back edges from blocks dominated by to.
	for _, p := range to.Preds {
		if p == from {
			continue
		}
		if to.Dominates(p) {
			continue
		}
		return false
	}
	return true
}

// condEdges describes, for an If, the successor taken when cond is true/false.
func ifSuccs(i *ssa.If) (t, f *ssa.BasicBlock) {
	b := i.Block()
	return b.Succs[0], b.Succs[1]
}

// blockIf returns the If terminating block b, or nil.
func blockIf(b *ssa.BasicBlock) *ssa.If {
	if len(b.Instrs) == 0 {
		return nil
	}
	i, _ := b.Instrs[len(b.Instrs)-1].(*ssa.If)
	return i
}

// instrIndex returns the index of in within its block.
func instrIndex(in ssa.Instruction) int {
	for i, x := range in.Block().Instrs {
		if x == in {
			return i
		}
	}
	return -1
}

// reachesWithout reports whether there is a CFG path (within one function)
// from just after instruction `from` to instruction `to` that does not pass
// through any instruction for which stop returns true.
func reachesWithout(from, to ssa.Instruction, stop func(ssa.Instruction) bool) bool {
	type pos struct {
		b *ssa.BasicBlock
		i int
	}
	seen := map[*ssa.BasicBlock]bool{}
	var walk func(b *ssa.BasicBlock, i int) bool
	walk = func(b *ssa.BasicBlock, i int) bool {
		for ; i < len(b.Instrs); i++ {
			in := b.Instrs[i]
			if in == to {
				return true
			}
			if stop(in) {
				return false
			}
		}
		for _, s := range b.Succs {
			if seen[s] {
				continue
			}
			seen[s] = true
			if walk(s, 0) {
				return true
			}
		}
		return false
	}
	return walk(from.Block(), instrIndex(from)+1)
}

// allInstrs calls f for each instruction of fn.
func allInstrs(fn *ssa.Function, f func(ssa.Instruction)) {
	live := liveBlocks(fn)
	for _, b := range fn.Blocks {
		if live != nil && !live[b] {
			continue // statically dead (constant test): see instrsOf
		}
		for _, in := range b.Instrs {
			f(in)
		}
	}
}

// callsIn returns every call instruction (call, go, defer) in fn.
func callsIn(fn *ssa.Function) []ssa.CallInstruction {
	var out []ssa.CallInstruction
	allInstrs(fn, func(in ssa.Instruction) {
		if c, ok := in.(ssa.CallInstruction); ok {
			out = append(out, c)
		}
	})
	return out
}

// isPanicBlock reports whether the block ends in a panic.
func isPanicBlock(b *ssa.BasicBlock) bool {
	if len(b.Instrs) == 0 {
		return false
	}
	_, ok := b.Instrs[len(b.Instrs)-1].(*ssa.Panic)
	return ok
}

// MayWrite returns the fields a call may store to, transitively through the
// call graph (closures created by a callee are attributed to it).
func (p *Prog) MayWrite(c ssa.CallInstruction) []*types.Var {
	p.initMayWrite()
	var out []*types.Var
	seen := map[*types.Var]bool{}
	add := func(f *ssa.Function) {
		for v := range p.mayWrite[f] {
			if !seen[v] {
				seen[v] = true
				out = append(out, v)
			}
		}
	}
	if f := c.Common().StaticCallee(); f != nil {
		add(f)
		return out
	}
	if n := p.CG.Nodes[c.Parent()]; n != nil {
		for _, e := range n.Out {
			if e.Site == c && e.Callee.Func != nil {
				add(e.Callee.Func)
			}
		}
	}
	return out
}

func (p *Prog) initMayWrite() {
	if p.mayWrite != nil {
		return
	}
	p.mayWrite = map[*ssa.Function]map[*types.Var]bool{}
	for _, f := range p.Repo {
		m := map[*types.Var]bool{}
		for _, g := range WithClosures(f) {
			allInstrs(g, func(in ssa.Instruction) {
				if st, ok := in.(*ssa.Store); ok {
					if fa, ok := st.Addr.(*ssa.FieldAddr); ok {
						if fv := fieldOfAddr(fa); fv != nil {
							m[fv] = true
						}
					}
				}
			})
		}
		p.mayWrite[f] = m
	}
	for changed := true; changed; {
		changed = false
		for _, f := range p.Repo {
			m := p.mayWrite[f]
			for _, g := range WithClosures(f) {
				n := p.CG.Nodes[g]
				if n == nil {
					continue
				}
				for _, e := range n.Out {
					cm := p.mayWrite[e.Callee.Func]
					for v := range cm {
						if !m[v] {
							m[v] = true
							changed = true
						}
					}
				}
			}
		}
	}
}

// substParams rewrites the boolean expression a predicate helper returns into
// the caller's terms: parameters are replaced by the call's arguments
// (`rs.state.isLoaded()` with `func (s state) isLoaded() bool { return s > k }`
// becomes `rs.state > k`). pure reports that no value local to the helper
// remains, so the result can be read entirely in the caller's frame.
func substParams(sf *ssa.Function, args []ssa.Value, v ssa.Value, depth int) (out ssa.Value, pure bool) {
	if depth > 4 {
		return v, false
	}
	switch x := v.(type) {
	case *ssa.Const:
		return v, true
	case *ssa.Parameter:
		for i, prm := range sf.Params {
			if prm == x && i < len(args) {
				return args[i], true
			}
		}
		return v, false
	case *ssa.BinOp:
		a, pa := substParams(sf, args, x.X, depth+1)
		b, pb := substParams(sf, args, x.Y, depth+1)
		if a == x.X && b == x.Y {
			return v, pa && pb
		}
		return &ssa.BinOp{Op: x.Op, X: a, Y: b}, pa && pb
	case *ssa.UnOp:
		if x.Op == token.NOT {
			a, pa := substParams(sf, args, x.X, depth+1)
			if a == x.X {
				return v, pa
			}
			return &ssa.UnOp{Op: x.Op, X: a}, pa
		}
	}
	return v, false
}

// containerTypeField maps a named slice or map type of the repository
// (`type taskQueue []func()`, `type ridPath []string`) to the one struct field
// that has this type. Inside the type's methods the receiver stands for that
// field: a queue, set or path wrapped into a small type keeps its identity.
var containerTypeField = map[*types.Named]*types.Var{}

func containerFieldOfRecv(prm *ssa.Parameter) *types.Var {
	fn := prm.Parent()
	if fn == nil || fn.Signature.Recv() == nil || len(fn.Params) == 0 || fn.Params[0] != prm {
		return nil
	}
	t := prm.Type()
	if pt, ok := t.(*types.Pointer); ok {
		t = pt.Elem()
	}
	if n, ok := t.(*types.Named); ok {
		return containerTypeField[n]
	}
	return nil
}
