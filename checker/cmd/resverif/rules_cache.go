package main

import (
	"fmt"
	"go/token"
	"go/types"
	"os"
	"path/filepath"
	"regexp"
	"strconv"
	"strings"

	"golang.org/x/tools/go/ssa"
)

// stringCmp decodes `load(field) ==/!= "const"`; eq says whether the dir edge
// asserts equality.
func stringCmp(i *ssa.If, dir bool) (f *types.Var, s string, eq bool, ok bool) {
	b, isB := i.Cond.(*ssa.BinOp)
	if !isB || (b.Op != token.EQL && b.Op != token.NEQ) {
		return nil, "", false, false
	}
	if cs, isS := constString(b.Y); isS {
		if fl, _ := fieldLoad(b.X); fl != nil {
			return fl, cs, (b.Op == token.EQL) == dir, true
		}
	}
	return nil, "", false, false
}

// ---------------------------------------------------------------------------
// handleEvent conformance (C01.1, C01.7, C03, C06.2, C12.4)

func ruleHandleEvent(c *Ctx) {
	p := c.P
	root := p.Fn("(*rescache.ResourceSubscription).handleEvent")
	if root == nil {
		c.undecided("(*rescache.ResourceSubscription).handleEvent", "anchor", "-", "not found")
		return
	}
	fState := p.Field("rescache.ResourceSubscription.state")
	fReset := p.Field("rescache.ResourceSubscription.resetting")
	fVer := p.Field("rescache.ResourceSubscription.version")
	fEvent := p.Field("rescache.ResourceEvent.Event")
	fEvVer := p.Field("rescache.ResourceEvent.Version")
	subEvent := p.Method("rescache.Subscriber.Event")
	hChange := p.Method("rescache.ResourceSubscription.handleEventChange")
	hAdd := p.Method("rescache.ResourceSubscription.handleEventAdd")
	hRemove := p.Method("rescache.ResourceSubscription.handleEventRemove")
	hDelete := p.Method("rescache.ResourceSubscription.handleEventDelete")
	sp := &Spec{}
	sp.Classify = func(t *Tracer, fr *Frame, in ssa.Instruction) []Ev {
		if st, ok := isStoreToT(t, fr, in, fEvVer); ok {
			if f, _ := fieldLoad(st.Val); f == fVer {
				return []Ev{{Kind: "stamp"}}
			}
			return []Ev{{Kind: "stamp:other"}}
		}
		if _, ok := isCallTo(in, hChange); ok {
			return []Ev{{Kind: "apply:change", Stop: true}}
		}
		if _, ok := isCallTo(in, hAdd); ok {
			return []Ev{{Kind: "apply:add", Stop: true}}
		}
		if _, ok := isCallTo(in, hRemove); ok {
			return []Ev{{Kind: "apply:remove", Stop: true}}
		}
		if _, ok := isCallTo(in, hDelete); ok {
			return []Ev{{Kind: "apply:delete", Stop: true}}
		}
		if _, ok := isCallTo(in, subEvent); ok {
			if _, isGo := in.(*ssa.Go); isGo {
				return []Ev{{Kind: "go"}, {Kind: "fanout"}}
			}
			return []Ev{{Kind: "fanout"}}
		}
		if call, ok := in.(ssa.CallInstruction); ok {
			if f := calleeFunc(call.Common()); f != nil && f.Pkg() != nil && f.Pkg().Path() == "sync" {
				return []Ev{{Kind: "mu." + f.Name()}}
			}
		}
		if _, ok := in.(*ssa.Go); ok {
			return []Ev{{Kind: "go"}}
		}
		return nil
	}
	sp.Branch = func(t *Tracer, fr *Frame, i *ssa.If, dir bool) []Ev {
		if x, op, k, ok := cmpConst(i.Cond); ok {
			if f, _ := fieldLoad(x); f == fState {
				// several tests of the state on one path (an explicit list of states instead of a range
				// comparison) are intersected after the trace
				set := satisfying(op, k, dir, 5)
				var ss []string
				for v := int64(0); v < 5; v++ {
					if set[v] {
						ss = append(ss, fmt.Sprint(v))
					}
				}
				return []Ev{{Kind: "stateset", Note: strings.Join(ss, ",")}}
			}
		}
		if f, s, eq, ok := stringCmp(i, dir); ok && f == fEvent {
			if eq {
				return []Ev{{Kind: "ev=" + s}}
			}
			return []Ev{{Kind: "ev!=" + s}}
		}
		v := i.Cond
		neg := false
		if u, ok := v.(*ssa.UnOp); ok && u.Op == token.NOT {
			v, neg = u.X, true
		}
		if f, _ := fieldLoad(v); f == fReset {
			if dir != neg {
				return []Ev{{Kind: "resetting"}}
			}
			return []Ev{{Kind: "notresetting"}}
		}
		if call, ok := v.(*ssa.Call); ok {
			if f := calleeFunc(call.Common()); f == hChange || f == hAdd || f == hRemove {
				if dir != neg {
					return []Ev{{Kind: "applied"}}
				}
				return []Ev{{Kind: "notapplied"}}
			}
		}
		// range loop plumbing is not a decision of the handler
		if e, ok := i.Cond.(*ssa.Extract); ok {
			if _, ok := e.Tuple.(*ssa.Next); ok {
				return nil
			}
		}
		if fr != t.RootFr || i.Block() == nil {
			return nil // inside a helper, or the synthetic view of a predicate helper
		}
		// a predicate helper: its own expression is classified through the view
		if call, ok := v.(*ssa.Call); ok {
			if sf := call.Call.StaticCallee(); sf != nil && t.isRepo(sf) && (t.interesting(sf, 0) || isParamPredicate(sf) || isParamDecision(sf)) {
				return nil
			}
		}
		return []Ev{{Kind: "branch:other", Note: p.InstrPos(i)}}
	}
	tr := runTrace(p, root, sp)
	// fold the state tests of each path into one verdict: not loaded / loaded / undetermined
	for pi, path := range tr.Paths {
		may := map[string]bool{"0": true, "1": true, "2": true, "3": true, "4": true}
		last := -1
		for k, e := range path {
			if e.Kind != "stateset" {
				continue
			}
			last = k
			allowed := map[string]bool{}
			for _, x := range strings.Split(e.Note, ",") {
				allowed[x] = true
			}
			for v := range may {
				if !allowed[v] {
					delete(may, v)
				}
			}
		}
		if last < 0 {
			continue
		}
		verdict := "state:mixed"
		notLoaded, loaded := len(may) > 0, len(may) > 0
		for v := range may {
			if v > "2" {
				notLoaded = false
			} else {
				loaded = false
			}
		}
		switch {
		case notLoaded:
			verdict = "notloaded"
		case loaded:
			verdict = "loaded"
		}
		var np []Ev
		for k, e := range path {
			if e.Kind == "stateset" {
				if k == last {
					e.Kind = verdict
					np = append(np, e)
				}
				continue
			}
			np = append(np, e)
		}
		tr.Paths[pi] = np
	}
	c.inst(1)
	pos := p.Pos(root.Pos())
	name := fnName(root)
	var bad []string
	add := func(s string) {
		if len(bad) < 3 {
			bad = append(bad, s)
		}
	}
	stateEvents := map[string]bool{"change": true, "add": true, "remove": true}
	for _, path := range tr.Paths {
		ev := "custom"
		for _, e := range path {
			if strings.HasPrefix(e.Kind, "ev=") {
				ev = e.Kind[3:]
			}
		}
		fan := hasKind(path, "mu.Unlock") // the fan-out section was entered
		applied := ""
		for _, e := range path {
			if strings.HasPrefix(e.Kind, "apply:") {
				applied = e.Kind[6:]
			}
		}
		if hasKind(path, "branch:other") {
			// an unlisted decision: only acceptable if it does not suppress anything
			if !fan && applied != "delete" {
				add("event dropped through a condition that is not one of the listed discards (not loaded, resetting, not applicable): " + tr.FmtPath(path))
			}
			continue
		}
		if hasKind(path, "go") {
			add("fan-out leaves the cache worker (go statement): per-resource order is lost: " + tr.FmtPath(path))
		}
		if hasKind(path, "stamp:other") {
			add("event stamped with something other than the resource's current version: " + tr.FmtPath(path))
		}
		switch {
		case ev == "reaccess":
			if !fan || applied != "" {
				add("reaccess event does not reach the subscribers unmodified: " + tr.FmtPath(path))
			}
		case hasKind(path, "notloaded"):
			if fan || applied != "" {
				add("event applied or delivered although the resource is not loaded: " + tr.FmtPath(path))
			}
		case stateEvents[ev]:
			if hasKind(path, "resetting") {
				if fan || applied != "" {
					add("state event applied during a reset re-fetch: " + tr.FmtPath(path))
				}
				break
			}
			if applied != ev {
				add("state event " + ev + " is not applied by its handler: " + tr.FmtPath(path))
				break
			}
			si, ai := indexKind(path, "stamp"), indexKind(path, "apply:"+ev)
			if si < 0 || si > ai {
				add("event not stamped with the pre-update version before it is applied: " + tr.FmtPath(path))
			}
			if hasKind(path, "applied") != fan {
				add("fan-out does not follow exactly the applied events: " + tr.FmtPath(path))
			}
		case ev == "delete":
			if hasKind(path, "resetting") {
				if applied != "" || fan {
					add("delete applied during reset: " + tr.FmtPath(path))
				}
			} else if applied != "delete" {
				add("delete event not handled: " + tr.FmtPath(path))
			}
		default: // custom event
			if !fan || applied != "" {
				add("custom event does not reach the subscribers: " + tr.FmtPath(path))
			}
			if indexKind(path, "stamp") < 0 {
				add("custom event not stamped with the current version: " + tr.FmtPath(path))
			}
		}
		// the fan-out window is opened and closed
		if fan && !(countKind(path, "mu.Unlock") == 1 && countKind(path, "mu.Lock") == 1 && indexKind(path, "mu.Unlock") < indexKind(path, "mu.Lock")) {
			add("unlock window around the fan-out is not balanced: " + tr.FmtPath(path))
		}
	}
	if tr.Trunc {
		add("path budget exhausted")
	}
	c.check(len(bad) == 0, name, "every event is stamped, applied by its handler and fanned out; only the listed discards drop it", pos,
		fmt.Sprintf("%d paths conform", len(tr.Paths)), strings.Join(bad, " | "))
}

// ---------------------------------------------------------------------------
// PAIR/version-bump (C01.1): content store <-> version++ <-> Update=true

func ruleVersionBump(c *Ctx) {
	p := c.P
	fModel := p.Field("rescache.ResourceSubscription.model")
	fColl := p.Field("rescache.ResourceSubscription.collection")
	fVer := p.Field("rescache.ResourceSubscription.version")
	fState := p.Field("rescache.ResourceSubscription.state")
	fUpd := p.Field("rescache.ResourceEvent.Update")
	if fModel == nil || fVer == nil || fUpd == nil {
		c.undecided("rescache.ResourceSubscription.model", "anchor", "-", "not found")
		return
	}
	fns := map[*ssa.Function]bool{}
	for _, f := range []*types.Var{fModel, fColl, fVer} {
		for _, st := range p.stores[f] {
			if _, isAlloc := st.Addr.(*ssa.FieldAddr).X.(*ssa.Alloc); isAlloc {
				continue // constructor literal
			}
			// a store in a helper that is new since the reference tree (`setResource` split off processGetResponse) is
			// a store of the function it was split off: analysed from there, with the helper walked through
			if owner := p.ByNm[p.refOwnerName(st.Parent())]; owner != nil {
				fns[owner] = true
			} else {
				fns[st.Parent()] = true
			}
		}
	}
	var names []string
	for f := range fns {
		names = append(names, fnName(f))
	}
	for _, name := range sortedStrings(names) {
		fn := p.Fn(name)
		c.inst(1)
		sp := &Spec{}
		sp.Classify = func(t *Tracer, fr *Frame, in ssa.Instruction) []Ev {
			st, ok := in.(*ssa.Store)
			if !ok {
				if r, ok := in.(*ssa.Return); ok && fr == t.RootFr && len(r.Results) == 1 {
					if b, ok := constBool(t.Resolve(fr, r.Results[0]).V); ok {
						return []Ev{{Kind: fmt.Sprintf("return:%v", b)}}
					}
				}
				return nil
			}
			fa, ok := st.Addr.(*ssa.FieldAddr)
			if !ok {
				return nil
			}
			base := t.valKey(fr, fa.X, t.cur)
			switch fieldOfAddr(fa) {
			case fModel, fColl:
				return []Ev{{Kind: "content=", Note: base}}
			case fVer:
				if bo, ok := st.Val.(*ssa.BinOp); ok && bo.Op == token.ADD {
					if k, isC := constInt(bo.Y); isC && k == 1 {
						if f, _ := fieldLoad(bo.X); f == fVer {
							return []Ev{{Kind: "version++", Note: base}}
						}
					}
				}
				if k, isC := constInt(st.Val); isC && k == 0 {
					return []Ev{{Kind: "version=0", Note: base}}
				}
				return []Ev{{Kind: "version=?", Note: base}}
			case fUpd:
				if b, ok := constBool(st.Val); ok && b {
					return []Ev{{Kind: "update=true"}}
				}
			case fState:
				if k, isC := constInt(st.Val); isC && k >= 3 {
					return []Ev{{Kind: "state=loaded", Note: base}}
				}
			}
			return nil
		}
		sp.Branch = func(t *Tracer, fr *Frame, i *ssa.If, dir bool) []Ev {
			if x, op, k, ok := cmpConst(i.Cond); ok {
				if f, b := fieldLoad(x); f == fState {
					return []Ev{stateSetEv(t.valKey(fr, b, t.cur), satisfying(op, k, dir, 5), 5)}
				}
			}
			return nil
		}
		tr := runTrace(p, fn, sp)
		foldStateSets(tr, 5, func(may map[int64]bool) string {
			for v := range may {
				if v > 2 {
					return ""
				}
			}
			if len(may) == 0 {
				return ""
			}
			return "guard:notloaded"
		})
		bad := ""
		n := 0
		for _, path := range tr.Paths {
			nc, nv, nu := countKind(path, "content="), countKind(path, "version++"), countKind(path, "update=true")
			n0 := countKind(path, "version=0")
			if hasKind(path, "version=?") {
				bad = "unrecognised store to the resource version: " + tr.FmtPath(path)
			}
			if nc == 0 && nv == 0 && n0 == 0 {
				if hasKind(path, "return:true") {
					// reports "applied" without having changed anything
					if name != "(*rescache.ResourceSubscription).processGetResponse" {
						bad = "handler reports an applied update without storing new content: " + tr.FmtPath(path)
					}
				}
				continue
			}
			n++
			if n0 > 0 || name == "(*rescache.ResourceSubscription).processGetResponse" {
				// initial load: content, version = 0 and the loaded state on one path, all under the not-loaded guard of the same object
				if !(nc == 1 && n0 == 1 && nv == 0 && countKind(path, "state=loaded") == 1) {
					bad = "initial load does not store content, version 0 and the loaded state together: " + tr.FmtPath(path)
					break
				}
				for i, e := range path {
					if e.Kind == "content=" || e.Kind == "version=0" || e.Kind == "state=loaded" {
						ok := false
						for j := 0; j < i; j++ {
							if path[j].Kind == "guard:notloaded" && path[j].Note == e.Note {
								ok = true
							}
						}
						if !ok {
							bad = fmt.Sprintf("%s of an entry is not guarded by the test that this same entry is not loaded yet (an already loaded, shared entry would be re-initialised and its version reset): %s", e.Kind, tr.FmtPath(path))
						}
					}
				}
				continue
			}
			if !(nc == 1 && nv == 1 && nu == 1) {
				bad = fmt.Sprintf("an applied update must store new content, bump the version and mark the event as update exactly once (content=%d version++=%d update=%d): %s", nc, nv, nu, tr.FmtPath(path))
				break
			}
			if hasKind(path, "return:false") {
				bad = "update applied but reported as not applied (no fan-out): " + tr.FmtPath(path)
			}
		}
		if tr.Trunc {
			bad = "path budget exhausted"
		}
		c.check(bad == "", name, "content, version and update flag change together", p.Pos(fn.Pos()), fmt.Sprintf("%d modifying paths of %d", n, len(tr.Paths)), bad)
	}
}

// ---------------------------------------------------------------------------
// reset: must request unless already resetting; flag protocol (C12.2, C12.3)

func ruleResetProtocol(c *Ctx) {
	ruleResetAccessFanout(c)
	p := c.P
	root := p.Fn("(*rescache.ResourceSubscription).handleResetResource")
	if root == nil {
		c.undecided("(*rescache.ResourceSubscription).handleResetResource", "anchor", "-", "not found")
		return
	}
	fReset := p.Field("rescache.ResourceSubscription.resetting")
	fQuery := p.Field("rescache.ResourceSubscription.query")
	process := p.Method("rescache.ResourceSubscription.processResetGetResponse")
	sendReq := p.Method("mq.Client.SendRequest")
	createGet := p.PkgFunc("codec.CreateGetRequest")
	sp := &Spec{}
	sp.Classify = func(t *Tracer, fr *Frame, in ssa.Instruction) []Ev {
		if st, ok := isStoreToT(t, fr, in, fReset); ok {
			if b, ok := constBool(st.Val); ok {
				return []Ev{{Kind: fmt.Sprintf("resetting=%v", b)}}
			}
		}
		if _, ok := isCallTo(in, process); ok {
			return []Ev{{Kind: "process", Stop: true}}
		}
		if call, ok := isCallTo(in, sendReq); ok {
			// payload must be CreateGetRequest(rs.query)
			pay := t.Resolve(fr, callArgs(call.Common())[2])
			note := "payload:other"
			if pc, ok := pay.V.(*ssa.Call); ok && calleeFunc(pc.Common()) == createGet {
				if f, _ := fieldLoad(t.Resolve(pay.Fr, pc.Call.Args[0]).V); f == fQuery {
					note = "payload:query"
				}
			}
			return []Ev{{Kind: "request", Note: note}}
		}
		return nil
	}
	sp.Branch = func(t *Tracer, fr *Frame, i *ssa.If, dir bool) []Ev {
		if fr != t.RootFr {
			return nil
		}
		v := i.Cond
		neg := false
		if u, ok := v.(*ssa.UnOp); ok && u.Op == token.NOT {
			v, neg = u.X, true
		}
		if f, _ := fieldLoad(v); f == fReset {
			if dir != neg {
				return []Ev{{Kind: "already-resetting"}}
			}
			return nil
		}
		if x, _, ok := nilTest(i, dir); ok {
			if _, isP := x.(*ssa.Parameter); isP {
				return nil // t != nil: throttled or not
			}
		}
		if t.DecidedInHelper(i) {
			return nil
		}
		return []Ev{{Kind: "branch:other", Note: p.InstrPos(i)}}
	}
	tr := runTrace(p, root, sp)
	c.inst(1)
	bad := ""
	for _, path := range tr.Paths {
		if hasKind(path, "already-resetting") {
			if hasKind(path, "request") {
				bad = "a second re-fetch is issued while one is outstanding: " + tr.FmtPath(path)
			}
			continue
		}
		ri := indexKind(path, "request")
		if ri < 0 {
			bad = "matching resource is not re-fetched (skipped by a condition other than an outstanding reset): " + tr.FmtPath(path)
			break
		}
		if path[ri].Note != "payload:query" {
			bad = "re-fetch does not carry the entry's normalised query: " + tr.FmtPath(path)
		}
		ti := indexKind(path, "resetting=true")
		if ti < 0 || ti > ri {
			bad = "resetting flag not set before the request: " + tr.FmtPath(path)
		}
		fi, pi := indexKind(path, "resetting=false"), indexKind(path, "process")
		if fi < ri || pi < fi || countKind(path, "resetting=false") != 1 || countKind(path, "process") != 1 {
			bad = "answer task must clear the resetting flag and then process the response, once: " + tr.FmtPath(path)
		}
		if countKind(path, "request") != 1 {
			bad = "more than one request: " + tr.FmtPath(path)
		}
	}
	c.check(bad == "", fnName(root), "re-fetch issued once with the normalised query unless one is outstanding; flag cleared before the answer is processed", p.Pos(root.Pos()), fmt.Sprintf("%d paths (throttled and unthrottled twins)", len(tr.Paths)), bad)

	// the event-subscription level: base (if not a link) and every cached query are visited
	for _, nm := range []string{"(*rescache.EventSubscription).handleResetResource", "(*rescache.EventSubscription).handleResetAccess"} {
		fn := p.Fn(nm)
		if fn == nil {
			c.undecided(nm, "anchor", "-", "not found")
			continue
		}
		c.inst(1)
		target := p.Method("rescache.ResourceSubscription." + fn.Name())
		fBase := p.Field("rescache.EventSubscription.base")
		fQueries := p.Field("rescache.EventSubscription.queries")
		sp := &Spec{}
		sp.Classify = func(t *Tracer, fr *Frame, in ssa.Instruction) []Ev {
			if call, ok := isCallTo(in, target); ok {
				recv := callArgs(call.Common())[0]
				if f, _ := fieldLoad(t.Resolve(fr, recv).V); f == fBase {
					return []Ev{{Kind: "visit:base", Stop: true}}
				}
				return []Ev{{Kind: "visit:query", Stop: true}}
			}
			if r, ok := in.(*ssa.Range); ok {
				if f, _ := fieldLoad(r.X); f == fQueries {
					return []Ev{{Kind: "range-queries"}}
				}
			}
			return nil
		}
		sp.Branch = func(t *Tracer, fr *Frame, i *ssa.If, dir bool) []Ev {
			if e, ok := i.Cond.(*ssa.Extract); ok {
				if _, ok := e.Tuple.(*ssa.Next); ok {
					if dir {
						return []Ev{{Kind: "iter"}}
					}
					return nil
				}
			}
			if x, nonNil, ok := nilTest(i, dir); ok {
				if f, _ := fieldLoad(x); f == fBase {
					if nonNil {
						return []Ev{{Kind: "base!=nil"}}
					}
					return []Ev{{Kind: "base==nil"}}
				}
			}
			if f, s, eq, ok := stringCmp(i, dir); ok && f == fQuery && s == "" {
				if eq {
					return []Ev{{Kind: "base-not-link"}}
				}
				return []Ev{{Kind: "base-is-link"}}
			}
			if t.DecidedInHelper(i) {
				return nil
			}
			return []Ev{{Kind: "branch:other"}}
		}
		tr := runTrace(p, fn, sp)
		bad := ""
		for _, path := range tr.Paths {
			if hasKind(path, "drop:Enqueue") {
				continue
			}
			if !hasKind(path, "range-queries") {
				bad = "cached query variants are not visited: " + tr.FmtPath(path)
			}
			if countKind(path, "iter") != countKind(path, "visit:query") {
				bad = "a cached query variant is skipped or visited twice: " + tr.FmtPath(path)
			}
			if hasKind(path, "base!=nil") && hasKind(path, "base-not-link") && !hasKind(path, "visit:base") {
				bad = "the non-query resource is not visited: " + tr.FmtPath(path)
			}
			if hasKind(path, "base-is-link") && hasKind(path, "visit:base") {
				bad = "a link to a query resource is visited as base (the query variant would be visited twice): " + tr.FmtPath(path)
			}
			if hasKind(path, "branch:other") && countKind(path, "visit:base")+countKind(path, "visit:query") == 0 {
				bad = "visit suppressed by an unlisted condition: " + tr.FmtPath(path)
			}
		}
		c.check(bad == "", nm, "base resource (unless a link) and every cached query variant visited exactly once", p.Pos(fn.Pos()), fmt.Sprintf("%d paths", len(tr.Paths)), bad)
	}
}

// DOM/reset-protocol, resource level: a reset access pattern re-checks every
// subscriber of the resource subscription, whatever its state (a resource
// whose get is still in flight has subscribers whose access answer may
// already be in; skipping them would leave a revoked grant in place).
func ruleResetAccessFanout(c *Ctx) {
	p := c.P
	fn := p.Fn("(*rescache.ResourceSubscription).handleResetAccess")
	if fn == nil {
		c.undecided("(*rescache.ResourceSubscription).handleResetAccess", "anchor", "-", "not found")
		return
	}
	fSubs := p.Field("rescache.ResourceSubscription.subs")
	reaccess := p.Method("rescache.Subscriber.Reaccess")
	c.inst(1)
	sp := &Spec{EdgeLimit: 2}
	sp.Classify = func(t *Tracer, fr *Frame, in ssa.Instruction) []Ev {
		if r, ok := in.(*ssa.Range); ok {
			if f, _ := fieldLoad(t.Resolve(fr, r.X).V); f == fSubs {
				return []Ev{{Kind: "range-subs"}}
			}
		}
		if _, ok := isCallTo(in, reaccess); ok {
			return []Ev{{Kind: "reaccess", Stop: true}}
		}
		return nil
	}
	sp.Branch = func(t *Tracer, fr *Frame, i *ssa.If, dir bool) []Ev {
		if e, ok := i.Cond.(*ssa.Extract); ok {
			if _, ok := e.Tuple.(*ssa.Next); ok {
				if dir {
					return []Ev{{Kind: "iter"}}
				}
				return nil
			}
		}
		if t.DecidedInHelper(i) {
			return nil
		}
		return []Ev{{Kind: "branch:other"}}
	}
	tr := runTrace(p, fn, sp)
	bad := ""
	for _, path := range tr.Paths {
		if !hasKind(path, "range-subs") {
			bad = "a path re-checks no subscriber (the subscriber set is not visited): " + tr.FmtPath(path)
		}
		if countKind(path, "iter") != countKind(path, "reaccess") {
			bad = "a subscriber is skipped or re-checked twice: " + tr.FmtPath(path)
		}
	}
	if tr.Trunc {
		bad = "path budget exhausted"
	}
	c.check(bad == "", fnName(fn), "every subscriber of the resource is re-checked, whatever the state of the resource", p.Pos(fn.Pos()), fmt.Sprintf("%d paths", len(tr.Paths)), bad)
}

// DOM/answer-waiting (C07, C13): every outcome of a get response hands the
// subscribers that wait on this request back to the caller, which answers
// each of them (Loaded). Structural part: on every returning path of
// processGetResponse the subscriber set of the request's own resource
// subscription has been cloned (ranged over) before the return — there is no
// exit that leaves the waiting subscribers without an answer.
func ruleAnswerWaiting(c *Ctx) {
	p := c.P
	fn := p.Fn("(*rescache.ResourceSubscription).processGetResponse")
	if fn == nil {
		c.undecided("(*rescache.ResourceSubscription).processGetResponse", "anchor", "-", "not found")
		return
	}
	fSubs := p.Field("rescache.ResourceSubscription.subs")
	c.inst(1)
	sp := &Spec{}
	sp.Classify = func(t *Tracer, fr *Frame, in ssa.Instruction) []Ev {
		if r, ok := in.(*ssa.Range); ok {
			rx := t.Resolve(fr, r.X)
			if f, base := fieldLoad(rx.V); f == fSubs {
				// of the receiver itself (rs), not of the normalised entry (nrs)
				if fr.ID == -1 || base == nil {
					return []Ev{{Kind: "clone-waiting"}}
				}
				if b := t.Resolve(rx.Fr, base); b.V == ssa.Value(fn.Params[0]) {
					return []Ev{{Kind: "clone-waiting"}}
				}
			}
		}
		if _, ok := in.(*ssa.Return); ok && fr == t.RootFr {
			return []Ev{{Kind: "return"}}
		}
		// the whole set taken over through a take helper (detachSubscribers)
		if call, ok := in.(ssa.CallInstruction); ok {
			if sf := call.Common().StaticCallee(); sf != nil && p.takesField(sf, fSubs) {
				args := call.Common().Args
				if len(args) > 0 && (fr.ID == -1 || t.Resolve(fr, args[0]).V == ssa.Value(fn.Params[0])) {
					return []Ev{{Kind: "clone-waiting", Stop: true}}
				}
			}
		}
		return nil
	}
	tr := runTrace(p, fn, sp)
	bad := ""
	n := 0
	for _, path := range tr.Paths {
		if !hasKind(path, "return") {
			continue
		}
		n++
		if !hasKind(path, "clone-waiting") {
			bad = "an exit of the get-response handler does not collect the subscribers waiting on the request: they are never told the outcome and their client requests stay unanswered: " + tr.FmtPath(path)
		}
	}
	if tr.Trunc {
		bad = "path budget exhausted"
	}
	c.check(bad == "" && n > 0, fnName(fn), "every outcome collects the subscribers waiting on the request", p.Pos(fn.Pos()), fmt.Sprintf("%d returning paths, each ranges over the receiver's subscriber set", n), bad)
}

// DOM/unregister (C13, C09): an entry is findable through three indexes of
// its event subscription — base (the query-less name and the empty alias),
// queries (its own normalised query) and links (its other aliases).
// unregister removes it from each: the own name by base=nil or a delete on
// queries, and every alias by base=nil for the empty alias or a delete on
// links for the others. A missed index leaves a stale entry that later
// subscribers are served from without any request.
func ruleUnregister(c *Ctx) {
	p := c.P
	fBase := p.Field("rescache.EventSubscription.base")
	fQueries := p.Field("rescache.EventSubscription.queries")
	fLinks := p.Field("rescache.EventSubscription.links")
	fn := p.Fn("(*rescache.ResourceSubscription).unregister")
	if fn == nil {
		// by role: the one function that deletes from the alias index
		var cands []*ssa.Function
		for _, g := range p.Repo {
			if g.Parent() != nil {
				continue
			}
			for _, in := range instrsOf(g) {
				if call, ok := isBuiltinCall(in, "delete"); ok {
					if f, _ := fieldLoad(call.Call.Args[0]); f != nil && f == fLinks {
						cands = append(cands, g)
						break
					}
				}
			}
		}
		if len(cands) == 1 {
			fn = cands[0]
		}
	}
	if fn == nil {
		c.undecided("(*rescache.ResourceSubscription).unregister", "anchor", "-", "not found")
		return
	}
	fRSLinks := p.Field("rescache.ResourceSubscription.links")
	fQuery := p.Field("rescache.ResourceSubscription.query")
	c.inst(1)
	sp := &Spec{}
	sp.Classify = func(t *Tracer, fr *Frame, in ssa.Instruction) []Ev {
		if st, ok := isStoreToT(t, fr, in, fBase); ok && isNilConst(st.Val) {
			return []Ev{{Kind: "base=nil"}}
		}
		if call, ok := isBuiltinCall(in, "delete"); ok {
			switch f, _ := fieldLoad(t.Resolve(fr, call.Call.Args[0]).V); f {
			case fQueries:
				return []Ev{{Kind: "del-queries"}}
			case fLinks:
				return []Ev{{Kind: "del-links"}}
			}
		}
		// a range over a slice is compiled to len + an index loop
		if call, ok := isBuiltinCall(in, "len"); ok {
			if f, _ := fieldLoad(t.Resolve(fr, call.Call.Args[0]).V); f == fRSLinks {
				return []Ev{{Kind: "range-aliases"}}
			}
		}
		return nil
	}
	sp.Branch = func(t *Tracer, fr *Frame, i *ssa.If, dir bool) []Ev {
		b, ok := i.Cond.(*ssa.BinOp)
		if ok && (b.Op == token.EQL || b.Op == token.NEQ) {
			if s, isS := constString(b.Y); isS && s == "" {
				eq := (b.Op == token.EQL) == dir
				if f, _ := fieldLoad(t.Resolve(fr, b.X).V); f == fQuery {
					if eq {
						return []Ev{{Kind: "own-is-base"}}
					}
					return []Ev{{Kind: "own-is-query"}}
				}
				// the alias of the current iteration (an element of rs.links)
				if eq {
					return []Ev{{Kind: "alias-is-base"}}
				}
				return []Ev{{Kind: "alias-is-link"}}
			}
		}
		// range plumbing: one "iter" per alias visited (slice range: index < len)
		if ok && b.Op == token.LSS && dir {
			if call, isC := b.Y.(*ssa.Call); isC {
				if bi, isB := call.Call.Value.(*ssa.Builtin); isB && bi.Name() == "len" {
					if f, _ := fieldLoad(t.Resolve(fr, call.Call.Args[0]).V); f == fRSLinks {
						return []Ev{{Kind: "iter"}}
					}
				}
			}
		}
		return nil
	}
	tr := runTrace(p, fn, sp)
	bad := ""
	for _, path := range tr.Paths {
		switch {
		case hasKind(path, "own-is-base") && !hasKind(path, "base=nil"):
			bad = "the query-less entry is not removed from base: " + tr.FmtPath(path)
		case hasKind(path, "own-is-query") && !hasKind(path, "del-queries"):
			bad = "the query entry is not removed from queries: " + tr.FmtPath(path)
		case !hasKind(path, "own-is-base") && !hasKind(path, "own-is-query"):
			bad = "the entry's own name is removed without telling the query-less name (base) from a query: " + tr.FmtPath(path)
		}
		if !hasKind(path, "range-aliases") {
			bad = "the aliases of the entry are not visited: " + tr.FmtPath(path)
		}
		it := countKind(path, "iter")
		if it > 0 {
			if countKind(path, "alias-is-base")+countKind(path, "alias-is-link") < it {
				bad = "an alias is removed without telling the empty alias (kept in base) from a query alias (kept in links): the base index keeps pointing to the removed entry: " + tr.FmtPath(path)
			}
			// per alias kind, the matching removal follows its test
			for k, e := range path {
				want := ""
				switch e.Kind {
				case "alias-is-base":
					want = "base=nil"
				case "alias-is-link":
					want = "del-links"
				}
				if want == "" {
					continue
				}
				found := false
				for _, e2 := range path[k+1:] {
					if e2.Kind == want {
						found = true
					}
					if e2.Kind == e.Kind {
						continue // the same test seen again (once as the helper's decision, once as the caller's)
					}
					if e2.Kind == "iter" || e2.Kind == "alias-is-base" || e2.Kind == "alias-is-link" {
						break
					}
				}
				if !found {
					bad = "alias test " + e.Kind + " is not followed by " + want + ": " + tr.FmtPath(path)
				}
			}
		}
	}
	if tr.Trunc {
		bad = "path budget exhausted"
	}
	c.check(bad == "", fnName(fn), "unregister clears every index the entry is findable through (base, queries, links)", p.Pos(fn.Pos()), fmt.Sprintf("%d paths", len(tr.Paths)), bad)

	// an entry that drops its subscriber set (failed get, delete event) is taken out of the indexes on the
	// same path: a failed or deleted entry that stays findable answers later subscribers from its remembered
	// state, and its uses are then released through a branch that does not queue the entry for eviction
	fSubs := p.Field("rescache.ResourceSubscription.subs")
	unregM, _ := fn.Object().(*types.Func)
	for _, st := range p.stores[fSubs] {
		if !isNilConst(st.Val) {
			continue
		}
		if fa, ok := st.Addr.(*ssa.FieldAddr); ok {
			if _, fresh := fa.X.(*ssa.Alloc); fresh {
				continue
			}
		}
		g := st.Parent()
		// a take helper (`detachSubscribers`): the obligation is its callers'
		roots := []*ssa.Function{TopLevel(g)}
		if p.takesField(g, fSubs) {
			roots = nil
			if node := p.CG.Nodes[g]; node != nil {
				seenRoot := map[*ssa.Function]bool{}
				for _, e := range node.In {
					if e.Site != nil && e.Site.Common().StaticCallee() == g && !seenRoot[TopLevel(e.Caller.Func)] {
						seenRoot[TopLevel(e.Caller.Func)] = true
						roots = append(roots, TopLevel(e.Caller.Func))
					}
				}
			}
		}
		for _, root2 := range roots {
			c.inst(1)
			sp2 := &Spec{InlineHelpers: true}
			sp2.Classify = func(t *Tracer, fr *Frame, in ssa.Instruction) []Ev {
				if in == ssa.Instruction(st) {
					return []Ev{{Kind: "subs=nil"}}
				}
				if call, ok := in.(ssa.CallInstruction); ok && unregM != nil {
					if cf := calleeFunc(call.Common()); cf == unregM {
						return []Ev{{Kind: "unregister", Stop: true}}
					}
				}
				return nil
			}
			tr2 := runTrace(p, root2, sp2)
			bad2 := ""
			for _, path := range tr2.Paths {
				if hasKind(path, "subs=nil") && !hasKind(path, "unregister") {
					bad2 = "the entry drops its subscribers but stays registered: " + tr2.FmtPath(path)
				}
			}
			if tr2.Trunc {
				bad2 = "path budget exhausted"
			}
			c.check(bad2 == "", fnName(root2), "an entry that drops its subscriber set is unregistered on the same path", p.InstrPos(st), fmt.Sprintf("%d paths", len(tr2.Paths)), bad2)
		}
	}
}

// ---------------------------------------------------------------------------
// C13.1: query event locks

func ruleQueryLock(c *Ctx) {
	p := c.P
	root := p.Fn("(*rescache.EventSubscription).handleQueryEvent")
	if root == nil {
		c.undecided("(*rescache.EventSubscription).handleQueryEvent", "anchor", "-", "not found")
		return
	}
	lockEvents := p.Method("rescache.EventSubscription.lockEvents")
	enqUnlock := p.Method("rescache.EventSubscription.enqueueUnlock")
	sendReq := p.Method("mq.Client.SendRequest")
	fQueries := p.Field("rescache.EventSubscription.queries")
	fSubject := p.Field("codec.QueryEvent.Subject")
	createQ := p.PkgFunc("codec.CreateEventQueryRequest")
	hEvent := p.Method("rescache.ResourceSubscription.handleEvent")
	prModel := p.Method("rescache.ResourceSubscription.processResetModel")
	prColl := p.Method("rescache.ResourceSubscription.processResetCollection")
	fState := p.Field("rescache.ResourceSubscription.state")
	sp := &Spec{EdgeLimit: 2}
	sp.Classify = func(t *Tracer, fr *Frame, in ssa.Instruction) []Ev {
		if call, ok := isCallTo(in, lockEvents); ok {
			arg := t.Resolve(fr, callArgs(call.Common())[1])
			note := "arg:other"
			if lc, ok := arg.V.(*ssa.Call); ok {
				if b, ok := lc.Call.Value.(*ssa.Builtin); ok && b.Name() == "len" {
					if f, _ := fieldLoad(lc.Call.Args[0]); f == fQueries {
						note = "arg:len(queries)"
					}
				}
			}
			return []Ev{{Kind: "lock", Note: note, Stop: true}}
		}
		if _, ok := isCallTo(in, enqUnlock); ok {
			return []Ev{{Kind: "unlock"}}
		}
		if call, ok := isCallTo(in, sendReq); ok {
			args := callArgs(call.Common())
			note := ""
			if f, _ := fieldLoad(t.Resolve(fr, args[1]).V); f != fSubject {
				note += "subject:other "
			}
			pay := t.Resolve(fr, args[2])
			if pc, ok := pay.V.(*ssa.Call); !ok || calleeFunc(pc.Common()) != createQ {
				note += "payload:other "
			} else {
				// argument must be the range key
				k := t.Resolve(pay.Fr, pc.Call.Args[0])
				if e, ok := k.V.(*ssa.Extract); !ok || e.Index != 1 {
					note += "payload:not-range-key "
				}
			}
			return []Ev{{Kind: "request", Note: note}}
		}
		if r, ok := in.(*ssa.Range); ok {
			if f, _ := fieldLoad(r.X); f == fQueries {
				return []Ev{{Kind: "range-queries"}}
			}
		}
		if _, ok := isStoreToT(t, fr, in, fQueries); ok {
			return []Ev{{Kind: "queries="}}
		}
		if _, ok := isBuiltinCall(in, "delete"); ok {
			return []Ev{{Kind: "mapdelete"}}
		}
		if call, ok := isCallTo(in, hEvent, prModel, prColl); ok {
			// receiver must be a per-iteration value (not the shared range variable cell)
			recv := t.Resolve(fr, callArgs(call.Common())[0])
			note := ""
			if _, isExtract := recv.V.(*ssa.Extract); !isExtract {
				note = "receiver:not-per-iteration"
			}
			return []Ev{{Kind: "apply:" + calleeFunc(call.Common()).Name(), Note: note, Stop: true}}
		}
		return nil
	}
	sp.Branch = func(t *Tracer, fr *Frame, i *ssa.If, dir bool) []Ev {
		if e, ok := i.Cond.(*ssa.Extract); ok {
			if _, ok := e.Tuple.(*ssa.Next); ok {
				if dir {
					return []Ev{{Kind: "iter"}}
				}
				return []Ev{{Kind: "range-done"}}
			}
		}
		if x, op, k, ok := cmpConst(i.Cond); ok {
			if f, _ := fieldLoad(x); f == fState {
				set := satisfying(op, k, dir, 5)
				var ss []string
				for v := int64(0); v < 5; v++ {
					if set[v] {
						ss = append(ss, fmt.Sprint(v))
					}
				}
				return []Ev{{Kind: "state∈{" + strings.Join(ss, ",") + "}"}}
			}
		}
		return nil
	}
	tr := runTrace(p, root, sp)
	c.inst(1)
	bad := ""
	nlock := 0
	for _, path := range tr.Paths {
		li := indexKind(path, "lock")
		if li < 0 {
			if hasKind(path, "request") || hasKind(path, "unlock") {
				bad = "query requests issued without locking the event queue: " + tr.FmtPath(path)
			}
			continue
		}
		nlock++
		if path[li].Note != "arg:len(queries)" {
			bad = "lock capacity is not len(e.queries) of the map that is iterated: " + tr.FmtPath(path)
		}
		if !hasKind(path, "range-done") {
			bad = "function returns between locking and the end of the iteration: remaining locks are never released: " + tr.FmtPath(path)
		}
		for _, e := range path[li:] {
			if e.Kind == "queries=" || (e.Kind == "mapdelete" && e.Fr == tr.RootFr) {
				bad = "the query map is modified between taking its size and iterating it: " + tr.FmtPath(path)
			}
		}
		ni, nu := countKind(path, "iter"), countKind(path, "unlock")
		if ni != nu {
			bad = fmt.Sprintf("%d iterations over the cached queries but %d unlocks on the path (each query must release exactly one lock, on every outcome of its request): %s", ni, nu, tr.FmtPath(path))
		}
		for _, e := range path {
			if e.Kind == "request" && e.Note != "" {
				bad = "query request " + e.Note + ": " + tr.FmtPath(path)
			}
			if strings.HasPrefix(e.Kind, "apply:") && e.Note != "" {
				bad = "answer applied through the shared loop variable (go < 1.22 semantics: every answer would be applied to the last query's resource): " + tr.FmtPath(path)
			}
		}
		// kind guards before processResetModel / processResetCollection
		for i, e := range path {
			want := ""
			switch e.Kind {
			case "apply:processResetModel":
				want = "state∈{4}"
			case "apply:processResetCollection":
				want = "state∈{3}"
			}
			if want != "" {
				ok := false
				for j := 0; j < i; j++ {
					if path[j].Kind == want && path[j].Fr == e.Fr {
						ok = true
					}
				}
				if !ok {
					bad = "full " + e.Kind[6:] + " applied without testing that the cached resource is of that kind: " + tr.FmtPath(path)
				}
			}
		}
	}
	if tr.Trunc {
		bad = "path budget exhausted"
	}
	if nlock == 0 && bad == "" {
		bad = "no path locks the queue"
	}
	c.check(bad == "", fnName(root), "one lock per cached query, released exactly once on every outcome; request to the event's subject with the query key", p.Pos(root.Pos()), fmt.Sprintf("%d paths, %d locking", len(tr.Paths), nlock), bad)

	// lockEvents installs locks only for a positive count
	le := p.Fn("(*rescache.EventSubscription).lockEvents")
	if le != nil {
		c.inst(1)
		fLocks := p.Field("rescache.EventSubscription.locks")
		ok := true
		n := 0
		for _, st := range p.stores[fLocks] {
			if st.Parent() != le {
				continue
			}
			n++
			g := p.guardedBy(st, func(i *ssa.If) (bool, bool) {
				x, op, k, isC := cmpConst(i.Cond)
				if !isC {
					return false, false
				}
				if _, isP := x.(*ssa.Parameter); !isP {
					return false, false
				}
				if op == token.GTR && k == 0 {
					return true, true
				}
				if op == token.LEQ && k == 0 {
					return false, true
				}
				return false, false
			})
			if g == nil {
				ok = false
			}
		}
		c.check(ok && n > 0, fnName(le), "locks installed only for a positive count", p.Pos(le.Pos()), "store to locks dominated by locks > 0", "a zero-capacity lock list would suspend the queue forever")
	}
}

// ---------------------------------------------------------------------------
// loop variable capture (C13.3, C18): under go < 1.22 a closure that outlives
// its iteration must not capture the loop variable.

func goLangVersion(dir string) (int, int) {
	b, err := os.ReadFile(filepath.Join(dir, "go.mod"))
	if err != nil {
		return 1, 20
	}
	m := regexp.MustCompile(`(?m)^go (\d+)\.(\d+)`).FindSubmatch(b)
	if m == nil {
		return 1, 20
	}
	a, _ := strconv.Atoi(string(m[1]))
	bb, _ := strconv.Atoi(string(m[2]))
	return a, bb
}

func ruleLoopVar(pkgs ...string) func(c *Ctx) {
	return func(c *Ctx) {
		p := c.P
		maj, min := goLangVersion(p.Dir)
		if maj > 1 || min >= 22 {
			c.inst(1)
			c.ok("go.mod", "per-iteration loop variables", "-", fmt.Sprintf("language version %d.%d", maj, min))
			return
		}
		for _, fn := range p.Repo {
			inPkg := false
			for _, pk := range pkgs {
				if strings.Contains(fnName(fn), pk+".") {
					inPkg = true
				}
			}
			if !inPkg {
				continue
			}
			loops := blocksInLoops(fn)
			allInstrs(fn, func(in ssa.Instruction) {
				mc, ok := in.(*ssa.MakeClosure)
				if !ok || !loops[mc.Block()] {
					return
				}
				c.inst(1)
				name := fnName(fn)
				what := "closure created in a loop captures only per-iteration variables (" + fnName(mc.Fn.(*ssa.Function)) + ")"
				for _, b := range mc.Bindings {
					al, ok := b.(*ssa.Alloc)
					if !ok {
						continue
					}
					if loops[al.Block()] && sameLoop(al.Block(), mc.Block()) {
						continue // allocated per iteration
					}
					// allocated outside the loop: is it (re)assigned inside the loop?
					assignedInLoop := false
					for _, r := range *al.Referrers() {
						if st, ok := r.(*ssa.Store); ok && st.Addr == ssa.Value(al) && loops[st.Block()] {
							assignedInLoop = true
						}
					}
					if !assignedInLoop {
						continue
					}
					// does the closure outlive the iteration?
					if closureEscapesIteration(p, mc) {
						c.viol(name, what, p.InstrPos(mc), fmt.Sprintf("variable %q is shared by all iterations (go %d.%d) and the closure runs later: it will see the value of a later iteration", al.Comment, maj, min))
						return
					}
				}
				c.ok(name, what, p.InstrPos(mc), "no shared loop variable captured by a deferred closure")
			})
		}
	}
}

// sameLoop: a and b lie on a common cycle.
func sameLoop(a, b *ssa.BasicBlock) bool {
	reach := func(from, to *ssa.BasicBlock) bool {
		seen := map[*ssa.BasicBlock]bool{}
		st := []*ssa.BasicBlock{from}
		for len(st) > 0 {
			x := st[len(st)-1]
			st = st[:len(st)-1]
			for _, s := range x.Succs {
				if s == to {
					return true
				}
				if !seen[s] {
					seen[s] = true
					st = append(st, s)
				}
			}
		}
		return false
	}
	return a == b || (reach(a, b) && reach(b, a))
}

// closureEscapesIteration: the closure is not merely called on the spot: it
// is passed to a call, stored, or started with go/defer.
func closureEscapesIteration(p *Prog, mc *ssa.MakeClosure) bool {
	for _, r := range *mc.Referrers() {
		switch x := r.(type) {
		case *ssa.Call:
			if x.Call.Value == ssa.Value(mc) {
				continue // called directly, synchronously
			}
			if f := calleeFunc(&x.Call); f != nil {
				if tbl := p.combFor(f); tbl != nil {
					async := false
					for _, cb := range tbl {
						if cb.Async || cb.Mode == ModeStore {
							async = true
						}
					}
					if !async {
						continue
					}
				}
			}
			return true
		default:
			return true
		}
	}
	return false
}
