package main

import (
	"fmt"
	"go/token"
	"go/types"
	"sort"
	"strings"

	"golang.org/x/tools/go/ssa"
)

// guardPred inspects an If and says whether it is the wanted guard and which
// direction establishes the guarded fact.
type guardPred func(i *ssa.If) (dir bool, ok bool)

// guardedBy reports whether instruction in is dominated by the establishing
// edge of a guard matching pred — in its own function or, for closures, at
// the site where the closure was created (recursively up the closure tree).
// It returns the guard found.
// predicateView: when an If tests the result of a small repository predicate
// (`if rs.isLoaded()`, `if !s.isQueueing()`), the boolean expression that
// predicate returns, as a synthetic If, so that guard patterns written for
// the inlined form still match. flip: the view is the negation.
func (p *Prog) predicateView(i *ssa.If) (*ssa.If, bool) {
	v := i.Cond
	flip := false
	if u, ok := v.(*ssa.UnOp); ok && u.Op == token.NOT {
		v, flip = u.X, true
	}
	call, ok := v.(*ssa.Call)
	if !ok {
		return nil, false
	}
	sf := call.Call.StaticCallee()
	if sf == nil || !p.isRepoFn(sf) || len(sf.Blocks) == 0 || len(sf.Blocks) > 6 {
		return nil, false
	}
	var ret *ssa.Return
	n := 0
	for _, b := range sf.Blocks {
		for _, in := range b.Instrs {
			if r, ok := in.(*ssa.Return); ok {
				ret = r
				n++
			}
		}
	}
	if n != 1 || len(ret.Results) != 1 {
		return nil, false
	}
	switch ret.Results[0].(type) {
	case *ssa.BinOp, *ssa.UnOp:
		cond, _ := substParams(sf, call.Call.Args, ret.Results[0], 0)
		return &ssa.If{Cond: cond}, flip
	case *ssa.Call:
		// a predicate that returns another predicate's answer (`isQueueing()` → `s.queueFlag.any()` → `q != 0`)
		if p.viewDepth < 3 {
			p.viewDepth++
			inner, flip2 := p.predicateView(&ssa.If{Cond: ret.Results[0]})
			p.viewDepth--
			if inner != nil {
				cond, _ := substParams(sf, call.Call.Args, inner.Cond, 0)
				return &ssa.If{Cond: cond}, flip != flip2
			}
		}
	}
	return nil, false
}

// helperImplies: the branch condition is (the negation of) a call of a bool
// helper of the repository; returns the direction of the branch on which pred
// is established, if the helper's results imply it.
func (p *Prog) helperImplies(i *ssa.If, pred guardPred) (bool, bool) {
	if p.implDepth > 2 {
		return false, false
	}
	v := i.Cond
	neg := false
	if u, ok := v.(*ssa.UnOp); ok && u.Op == token.NOT {
		v, neg = u.X, true
	}
	call, ok := v.(*ssa.Call)
	if !ok {
		return false, false
	}
	sf := call.Call.StaticCallee()
	if sf == nil || !p.isRepoFn(sf) || len(sf.Blocks) < 2 || len(sf.Blocks) > 12 {
		return false, false
	}
	// inside the helper, its parameters stand for the call's arguments
	inner := func(j *ssa.If) (bool, bool) {
		c2, _ := substParams(sf, call.Call.Args, j.Cond, 0)
		if c2 != j.Cond {
			return pred(&ssa.If{Cond: c2})
		}
		return pred(j)
	}
	p.implDepth++
	defer func() { p.implDepth-- }()
	if impliesGuard(p, sf, 0, inner, false) {
		return !neg, true
	}
	if impliesGuard(p, sf, 0, inner, true) {
		return neg, true
	}
	return false, false
}

func (p *Prog) guardedBy(in ssa.Instruction, pred guardPred) *ssa.If {
	return p.guardedByOpt(in, pred, true)
}

func (p *Prog) guardedByOpt(in ssa.Instruction, pred guardPred, lift bool) *ssa.If {
	b := in.Block()
	fn := b.Parent()
	for _, d := range fn.Blocks {
		i := blockIf(d)
		if i == nil {
			continue
		}
		dir, ok := pred(i)
		if !ok {
			if v, flip := p.predicateView(i); v != nil {
				if d2, ok2 := pred(v); ok2 {
					dir, ok = d2 != flip, true
				}
			}
		}
		if !ok {
			// a predicate helper with several returns (`switch s.state { case a, b: return true }; return false`):
			// what its result implies is inferred from the tests its returns lie under
			if d2, ok2 := p.helperImplies(i, pred); ok2 {
				dir, ok = d2, true
			}
		}
		if !ok {
			continue
		}
		succ := d.Succs[0]
		if !dir {
			succ = d.Succs[1]
		}
		if d == b {
			continue
		}
		if edgeDominates(d, succ, b) {
			return i
		}
	}
	if mc := p.parent[fn]; mc != nil && lift {
		return p.guardedBy(mc, pred)
	}
	return nil
}

// guardedByNow is guardedBy for facts that may change between the creation of
// a closure and the time it runs (the disposing flag of a connection): the
// guard must lie in the function that contains the instruction, or — for a
// closure that is called on the spot — in the function that calls it. A guard
// in front of the creation of a continuation says nothing about the moment the
// continuation runs.
func (p *Prog) guardedByNow(in ssa.Instruction, pred guardPred) *ssa.If {
	fn := in.Block().Parent()
	saved := p.parent[fn]
	// look in fn only
	g := p.guardedByOpt(in, pred, false)
	if g != nil || saved == nil {
		return g
	}
	// a closure called where it is created
	onSpot := saved.Referrers() != nil && len(*saved.Referrers()) > 0
	if saved.Referrers() != nil {
		for _, r := range *saved.Referrers() {
			cl, ok := r.(*ssa.Call)
			if !ok || cl.Call.Value != ssa.Value(saved) {
				onSpot = false
			}
		}
	}
	if onSpot {
		return p.guardedByNow(saved, pred)
	}
	return nil
}

// fieldCmpGuard: the guard `load(field) op const` establishing, on the
// returned edge, that the field's value lies inside want (values 0..n-1).
func fieldCmpGuard(field *types.Var, n int64, want func(v int64) bool) guardPred {
	return func(i *ssa.If) (bool, bool) {
		x, op, k, ok := cmpConst(i.Cond)
		if !ok {
			return false, false
		}
		if f, _ := fieldLoad(x); f != field {
			return false, false
		}
		for _, dir := range []bool{true, false} {
			set := satisfying(op, k, dir, n)
			good := len(set) > 0
			for v := range set {
				if !want(v) {
					good = false
				}
			}
			if good {
				return dir, true
			}
		}
		return false, false
	}
}

// boolFieldGuard: `if x.field` establishing field == val.
func boolFieldGuard(field *types.Var, val bool) guardPred {
	return func(i *ssa.If) (bool, bool) {
		v := i.Cond
		neg := false
		if u, ok := v.(*ssa.UnOp); ok && u.Op == token.NOT {
			v, neg = u.X, true
		}
		if f, _ := fieldLoad(v); f == field {
			return val != neg, true
		}
		return false, false
	}
}

func isStoreTo(in ssa.Instruction, f *types.Var) (*ssa.Store, bool) {
	st, ok := in.(*ssa.Store)
	if !ok || f == nil {
		return nil, false
	}
	if prm, isP := st.Addr.(*ssa.Parameter); isP && containerFieldOfRecv(prm) == f {
		return st, true
	}
	fa, ok := st.Addr.(*ssa.FieldAddr)
	if !ok || fieldOfAddr(fa) != f {
		return nil, false
	}
	return st, true
}

// builtinCall is a call/defer/go of a builtin; Call is its CallCommon.
type builtinCall struct{ Call *ssa.CallCommon }

func isBuiltinCall(in ssa.Instruction, name string) (*builtinCall, bool) {
	c, ok := in.(ssa.CallInstruction)
	if !ok {
		return nil, false
	}
	b, ok := c.Common().Value.(*ssa.Builtin)
	if !ok || b.Name() != name {
		return nil, false
	}
	return &builtinCall{c.Common()}, true
}

func runTrace(p *Prog, root *ssa.Function, sp *Spec) *Tracer {
	// a bound method value used as a closure (g.countDown): the method is the root
	if root != nil && root.Synthetic != "" && strings.HasSuffix(root.Name(), "$bound") {
		if m := boundMethod(root); m != nil {
			if f := p.SSA.FuncValue(m); f != nil && len(f.Blocks) > 0 {
				root = f
			}
		}
	}
	tr := NewTracer(p, sp, root)
	tr.Run()
	return tr
}

func kinds(path []Ev) []string {
	out := make([]string, len(path))
	for i, e := range path {
		out[i] = e.Kind
	}
	return out
}

func hasKind(path []Ev, k string) bool {
	for _, e := range path {
		if e.Kind == k {
			return true
		}
	}
	return false
}

func countKind(path []Ev, k string) int {
	n := 0
	for _, e := range path {
		if e.Kind == k {
			n++
		}
	}
	return n
}

func indexKind(path []Ev, k string) int {
	for i, e := range path {
		if e.Kind == k {
			return i
		}
	}
	return -1
}

// ---------------------------------------------------------------------------
// C01.4 / C03.4: version filter on delivery

func ruleVersionFilter(c *Ctx) {
	p := c.P
	fVer := p.Field("server.Subscription.version")
	fEvVer := p.Field("rescache.ResourceEvent.Version")
	fUpd := p.Field("rescache.ResourceEvent.Update")
	pce := p.Method("server.Subscription.processCollectionEvent")
	pme := p.Method("server.Subscription.processModelEvent")
	if fVer == nil || fEvVer == nil || pce == nil || pme == nil {
		c.undecided("server.Subscription.processEvent", "anchor", "-", "not found")
		return
	}
	filter := func(i *ssa.If) (bool, bool) {
		b, ok := i.Cond.(*ssa.BinOp)
		if !ok || (b.Op != token.EQL && b.Op != token.NEQ) {
			return false, false
		}
		f1, _ := fieldLoad(b.X)
		f2, _ := fieldLoad(b.Y)
		if (f1 == fVer && f2 == fEvVer) || (f1 == fEvVer && f2 == fVer) {
			return b.Op == token.EQL, true
		}
		return false, false
	}
	for _, f := range p.Repo {
		for _, call := range callsIn(f) {
			if _, ok := isCallTo(call, pce, pme); ok {
				c.inst(1)
				g := p.guardedBy(call, filter)
				c.check(g != nil, fnName(f), "event applied only when it targets the subscriber's version", p.InstrPos(call),
					"dominated by the equal edge of s.version vs event.Version", "call is not dominated by the version comparison: stale or duplicate events would be applied")
			}
		}
	}
	// the only non-snapshot store to s.version is version+1 under event.Update, after the filter
	for _, st := range p.stores[fVer] {
		top := fnName(TopLevel(st.Parent()))
		if top == "(*server.Subscription).setModel" || top == "(*server.Subscription).setCollection" {
			continue
		}
		c.inst(1)
		pos := p.InstrPos(st)
		bo, ok := st.Val.(*ssa.BinOp)
		inc := false
		if ok && bo.Op == token.ADD {
			if k, isC := constInt(bo.Y); isC && k == 1 {
				if f, _ := fieldLoad(bo.X); f == fVer {
					inc = true
				}
			}
		}
		if !inc {
			c.viol(top, "subscriber version advanced by exactly one per update event", pos, "store to Subscription.version is not version+1")
			continue
		}
		g1 := p.guardedBy(st, filter)
		g2 := p.guardedBy(st, boolFieldGuard(fUpd, true))
		c.check(g1 != nil && g2 != nil, top, "subscriber version advanced by exactly one per update event", pos,
			"version+1 under event.Update, after the version filter", "increment is not guarded by both the version filter and event.Update")
	}
}

// ---------------------------------------------------------------------------
// C01.5 / C02.4 / C03.5: event gate — processEvent only with the gate open

func ruleEventGate(c *Ctx) {
	p := c.P
	fQ := p.Field("server.Subscription.queueFlag")
	fRS := p.Field("server.Subscription.resourceSub")
	fEvent := p.Field("rescache.ResourceEvent.Event")
	pe := p.Method("server.Subscription.processEvent")
	reacc := p.Method("server.Subscription.reaccess")
	fEQ := p.Field("server.Subscription.eventQueue")
	if fQ == nil || pe == nil || fRS == nil {
		c.undecided("server.Subscription.processEvent", "anchor", "-", "not found")
		return
	}
	p.initMayWrite()
	// functions that call processEvent directly; a helper (all static callers are other repository functions)
	// is analysed inlined into its callers instead of on its own
	direct := map[*ssa.Function]bool{}
	for _, f := range p.Repo {
		for _, call := range callsIn(f) {
			if _, ok := isCallTo(call, pe); ok {
				direct[f] = true
			}
		}
	}
	helper := map[*ssa.Function]bool{}
	roots := map[*ssa.Function]bool{}
	for f := range direct {
		roots[f] = true
	}
	for changed := true; changed; {
		changed = false
		for f := range roots {
			if helper[f] || f.Parent() != nil {
				continue
			}
			n := p.CG.Nodes[f]
			var callers []*ssa.Function
			if n != nil {
				for _, e := range n.In {
					if e.Site != nil && e.Site.Common().StaticCallee() == f && e.Caller.Func != nil && p.isRepoFn(e.Caller.Func) {
						callers = append(callers, e.Caller.Func)
					}
				}
			}
			if len(callers) > 0 && f.Object() != nil && !f.Object().Exported() && fnName(f) != "(*server.Subscription).unqueueEvents" {
				helper[f] = true
				for _, cf := range callers {
					if !roots[cf] {
						roots[cf] = true
					}
				}
				changed = true
			}
		}
	}
	var rootList []*ssa.Function
	for f := range roots {
		if !helper[f] {
			rootList = append(rootList, f)
		}
	}
	sort.Slice(rootList, func(i, j int) bool { return fnName(rootList[i]) < fnName(rootList[j]) })
	for _, f := range rootList {
		c.inst(1)
		root := f
		sp := &Spec{EdgeLimit: 2}
		sp.Inline = func(t *Tracer, fr *Frame, cl ssa.CallInstruction, fn *ssa.Function) bool { return helper[fn] }
		sp.Classify = func(t *Tracer, fr *Frame, in ssa.Instruction) []Ev {
			if _, ok := isCallTo(in, pe); ok {
				return []Ev{{Kind: "process", Stop: true}}
			}
			if _, ok := isStoreToT(t, fr, in, fQ); ok {
				return []Ev{{Kind: "write"}}
			}
			if _, ok := isStoreToT(t, fr, in, fEQ); ok {
				return []Ev{{Kind: "queue"}}
			}
			if _, ok := isCallTo(in, reacc); ok {
				return []Ev{{Kind: "reaccess", Stop: true}}
			}
			if call, ok := in.(ssa.CallInstruction); ok {
				if sf := call.Common().StaticCallee(); sf != nil && helper[sf] {
					return nil // inlined: its own instructions speak
				}
				for _, w := range p.MayWrite(call) {
					if w == fQ {
						return []Ev{{Kind: "write", Note: calleeName(call.Common())}}
					}
				}
			}
			return nil
		}
		sp.Branch = func(t *Tracer, fr *Frame, i *ssa.If, dir bool) []Ev {
			if x, op, k, ok := cmpConst(i.Cond); ok && k == 0 && (op == token.NEQ || op == token.EQL) {
				if fl, _ := fieldLoad(x); fl == fQ {
					if (op == token.EQL) == dir {
						return []Ev{{Kind: "gate:open"}}
					}
					return []Ev{{Kind: "gate:closed"}}
				}
			}
			if x, nonNil, ok := nilTest(i, dir); ok {
				if fl, _ := fieldLoad(x); fl == fRS {
					if nonNil {
						return []Ev{{Kind: "loaded"}}
					}
					return []Ev{{Kind: "notloaded"}}
				}
			}
			if b, ok := i.Cond.(*ssa.BinOp); ok && (b.Op == token.EQL || b.Op == token.NEQ) {
				if s, isS := constString(b.Y); isS && s == "reaccess" {
					if fl, _ := fieldLoad(b.X); fl == fEvent {
						if (b.Op == token.EQL) == dir {
							return []Ev{{Kind: "ev=reaccess"}}
						}
						return []Ev{{Kind: "ev!=reaccess"}}
					}
				}
			}
			return nil
		}
		tr := runTrace(p, root, sp)
		name := fnName(root)
		pos := p.Pos(root.Pos())
		bad := ""
		nproc := 0
		for _, path := range tr.Paths {
			for i, e := range path {
				if e.Kind != "process" {
					continue
				}
				nproc++
				ok := false
				for j := i - 1; j >= 0; j-- {
					if path[j].Kind == "gate:open" {
						ok = true
						break
					}
					if path[j].Kind == "write" || path[j].Kind == "process" || path[j].Kind == "gate:closed" {
						break
					}
				}
				if !ok {
					bad = "processEvent reached without a preceding test that the event gate is open (queueFlag == 0) since the last possible write of the gate: " + tr.FmtPath(path[:i+1])
				}
			}
			// Event task specifics: discard before load, reaccess dispatched first
			if root.Name() == "Event$1" {
				if (hasKind(path, "process") || hasKind(path, "queue")) && !hasKind(path, "loaded") {
					bad = "event queued or processed without the resource-loaded test: " + tr.FmtPath(path)
				}
				if hasKind(path, "ev=reaccess") && !hasKind(path, "reaccess") {
					bad = "reaccess event is not dispatched to reaccess(): " + tr.FmtPath(path)
				}
				if hasKind(path, "ev=reaccess") && (hasKind(path, "notloaded") || hasKind(path, "loaded")) && indexKind(path, "reaccess") > indexKind(path, "loaded") && indexKind(path, "loaded") >= 0 {
					bad = "reaccess dispatch happens after the not-loaded discard: " + tr.FmtPath(path)
				}
				if !hasKind(path, "ev=reaccess") && !hasKind(path, "ev!=reaccess") && !hasKind(path, "drop:Enqueue") {
					bad = "event path without the reaccess dispatch test: " + tr.FmtPath(path)
				}
			}
		}
		if tr.Trunc {
			bad = "path budget exhausted"
		}
		c.check(bad == "", name, "processEvent only with the event gate known open", pos, fmt.Sprintf("%d paths, %d processEvent occurrences each preceded by a gate-open test", len(tr.Paths), nproc), bad)
	}
}

// ---------------------------------------------------------------------------
// C05.4 / C04.4 / C06: cached verdict invalidated on every trigger

func ruleInvalidate(c *Ctx) {
	p := c.P
	fAccess := p.Field("server.Subscription.access")
	fState := p.Field("server.Subscription.state")
	fFlagSet := p.flagFields("server.Subscription.flags")
	loadAccess := p.Method("server.Subscription.loadAccess")
	queueEvents := p.Method("server.Subscription.queueEvents")
	unqueueEvents := p.Method("server.Subscription.unqueueEvents")
	validate := p.Method("server.Subscription.validateAccess")
	handleRe := p.Method("server.Subscription.handleReaccess")
	re := p.Fn("(*server.Subscription).reaccess")
	hre := p.Fn("(*server.Subscription).handleReaccess")
	if re == nil || hre == nil || fAccess == nil {
		c.undecided("(*server.Subscription).reaccess", "anchor", "-", "not found")
		return
	}
	mk := func() *Spec {
		sp := &Spec{}
		sp.Classify = func(t *Tracer, fr *Frame, in ssa.Instruction) []Ev {
			if st, ok := isStoreToT(t, fr, in, fAccess); ok {
				if isNilConst(st.Val) {
					return []Ev{{Kind: "access=nil"}}
				}
				return []Ev{{Kind: "access=set"}}
			}
			for _, fFlags := range fFlagSet {
				if _, ok := isStoreToT(t, fr, in, fFlags); ok {
					return []Ev{{Kind: "flags"}}
				}
			}
			if _, ok := isCallTo(in, loadAccess); ok {
				return []Ev{{Kind: "loadAccess"}}
			}
			if call, ok := isCallTo(in, queueEvents); ok {
				if k, ok := constInt(callArgs(call.Common())[1]); ok {
					return []Ev{{Kind: fmt.Sprintf("queue(%d)", k), Stop: true}}
				}
			}
			if call, ok := isCallTo(in, unqueueEvents); ok {
				if k, ok := constInt(callArgs(call.Common())[1]); ok {
					return []Ev{{Kind: fmt.Sprintf("unqueue(%d)", k), Stop: true}}
				}
			}
			if _, ok := isCallTo(in, validate); ok {
				return []Ev{{Kind: "validate", Stop: true}}
			}
			if _, ok := isCallTo(in, handleRe); ok {
				return []Ev{{Kind: "handleReaccess", Stop: true}}
			}
			return nil
		}
		sp.Branch = func(t *Tracer, fr *Frame, i *ssa.If, dir bool) []Ev {
			if x, op, k, ok := cmpConst(i.Cond); ok {
				if fl, _ := fieldLoad(x); fl == fState && k == 0 && (op == token.EQL || op == token.NEQ) {
					if (op == token.EQL) == dir {
						return []Ev{{Kind: "disposed"}}
					}
					return []Ev{{Kind: "live"}}
				}
			}
			return nil
		}
		return sp
	}
	// reaccess: every non-disposed path clears the verdict itself (before possibly deferring)
	{
		c.inst(1)
		tr := runTrace(p, re, mk())
		bad, bad2, bad3 := "", "", ""
		for _, path := range tr.Paths {
			if hasKind(path, "disposed") {
				continue
			}
			i := indexKind(path, "access=nil")
			if i < 0 {
				bad = "trigger path keeps the cached access verdict usable: " + tr.FmtPath(path)
				break
			}
			if j := indexKind(path, "flags"); j >= 0 && j < i {
				bad = "trigger is deferred before the verdict is cleared: " + tr.FmtPath(path)
			}
			if j := indexKind(path, "handleReaccess"); j >= 0 && j < i {
				bad = "handleReaccess before the verdict is cleared: " + tr.FmtPath(path)
			}
			// a trigger is carried out now or recorded for later — never dropped because a re-check is
			// already pending (its answer belongs to the token the request carried)
			if !hasKind(path, "flags") && !hasKind(path, "handleReaccess") {
				bad2 = "a trigger is neither carried out nor recorded: the answer of the pending check, made for the earlier token, is cached and gates later calls: " + tr.FmtPath(path)
			}
			// a disposed subscription (its connection may be gone) starts no new access request
			if !hasKind(path, "live") {
				bad3 = "a trigger reaches the re-check without having excluded a disposed subscription: an access request goes out on behalf of a connection that has been disposed: " + tr.FmtPath(path)
			}
		}
		c.check(bad == "", fnName(re), "cached verdict cleared on every trigger", p.Pos(re.Pos()), fmt.Sprintf("%d paths: every non-disposed path stores nil to Subscription.access first", len(tr.Paths)), bad)
		c.check(bad2 == "", fnName(re), "every trigger is carried out or recorded", p.Pos(re.Pos()), "every non-disposed path sets the deferred flag or runs handleReaccess", bad2)
		c.check(bad3 == "", fnName(re), "a disposed subscription starts no re-check", p.Pos(re.Pos()), "every acting path has excluded the disposed state", bad3)
	}
	// handleReaccess: verdict cleared before loadAccess; gate closed before the request; continuation validates then opens the gate
	{
		c.inst(1)
		tr := runTrace(p, hre, mk())
		bad := ""
		nload := 0
		for _, path := range tr.Paths {
			li := indexKind(path, "loadAccess")
			if li < 0 {
				continue
			}
			nload++
			ai := indexKind(path, "access=nil")
			if ai < 0 || ai > li {
				bad = "loadAccess is reached with the old verdict still cached (it would be reused without a new access request): " + tr.FmtPath(path)
				break
			}
			if fi := indexKind(path, "flags"); fi < 0 || fi > li {
				bad = "the deferred-reaccess flag is not cleared before the access request: a trigger arriving while this check is pending is lost when the flag is cleared later: " + tr.FmtPath(path)
				break
			}
			qi := indexKind(path, "queue(2)")
			if qi < 0 || qi > li {
				bad = "access request issued before the event gate is closed (queueReasonReaccess): " + tr.FmtPath(path)
				break
			}
			// continuation
			if hasKind(path, "drop:Enqueue") {
				continue
			}
			vi, ui := indexKind(path, "validate"), indexKind(path, "unqueue(2)")
			if vi < li || ui < vi || countKind(path, "unqueue(2)") != 1 {
				bad = "verdict continuation does not validate access and then reopen the gate exactly once: " + tr.FmtPath(path)
				break
			}
		}
		if nload == 0 {
			bad = "no path reaches loadAccess"
		}
		c.check(bad == "", fnName(hre), "re-check: verdict cleared and gate closed before the request, validate then reopen after", p.Pos(hre.Pos()), fmt.Sprintf("%d paths through loadAccess", nload), bad)
	}
}

// ---------------------------------------------------------------------------
// C06.1: token change fans out reaccess to every subscription

func ruleTokenFanout(c *Ctx) {
	p := c.P
	fTok := p.Field("server.wsConn.token")
	fTid := p.Field("server.wsConn.tid")
	fSubs := p.Field("server.wsConn.subs")
	reacc := p.Method("server.Subscription.reaccess")
	if fTok == nil || reacc == nil {
		c.undecided("server.wsConn.token", "anchor", "-", "not found")
		return
	}
	ws := p.writersOf(fTok)
	for name := range ws {
		if name == "(*server.Service).newWSConn" {
			continue
		}
		root := p.Fn(name)
		if root == nil {
			continue
		}
		c.inst(1)
		sp := &Spec{}
		sp.Classify = func(t *Tracer, fr *Frame, in ssa.Instruction) []Ev {
			if _, ok := isStoreToT(t, fr, in, fTok); ok {
				return []Ev{{Kind: "token="}}
			}
			if st, ok := isStoreToT(t, fr, in, fTid); ok {
				if _, isP := t.Resolve(fr, st.Val).V.(*ssa.Parameter); isP {
					return []Ev{{Kind: "tid="}}
				}
				return []Ev{{Kind: "tid=?"}}
			}
			if _, ok := isCallTo(in, reacc); ok {
				return []Ev{{Kind: "reaccess", Stop: true}}
			}
			if _, ok := in.(*ssa.Next); ok {
				return []Ev{{Kind: "iter"}}
			}
			if r, ok := in.(*ssa.Range); ok {
				if fl, _ := fieldLoad(r.X); fl == fSubs {
					return []Ev{{Kind: "range-subs"}}
				}
			}
			return nil
		}
		sp.Branch = func(t *Tracer, fr *Frame, i *ssa.If, dir bool) []Ev {
			if x, nonNil, ok := nilTest(i, dir); ok {
				if fl, _ := fieldLoad(x); fl == fTok {
					if nonNil {
						return []Ev{{Kind: "old!=nil"}}
					}
					return []Ev{{Kind: "old==nil"}}
				}
			}
			// loop continuation test of the range (Extract #0 of Next)
			if e, ok := i.Cond.(*ssa.Extract); ok && e.Index == 0 {
				if _, ok := e.Tuple.(*ssa.Next); ok {
					if dir {
						return []Ev{{Kind: "body"}}
					}
					return []Ev{{Kind: "done"}}
				}
			}
			return []Ev{{Kind: "cond", Note: p.InstrPos(i)}}
		}
		tr := runTrace(p, root, sp)
		bad := ""
		for _, path := range tr.Paths {
			if !hasKind(path, "token=") {
				continue
			}
			if countKind(path, "tid=") != 1 {
				bad = "a token event does not replace the token id together with the token (a stale tid keeps the connection addressed by token resets of a token it no longer holds): " + tr.FmtPath(path)
				break
			}
			if hasKind(path, "old==nil") {
				continue // first token: nothing to revalidate
			}
			if !hasKind(path, "range-subs") {
				bad = "token replaced without fanning out reaccess over the connection's subscriptions: " + tr.FmtPath(path)
				break
			}
			// the re-check requests carry the NEW token: it is stored before the fan-out starts
			if ti, ri := indexKind(path, "token="), indexKind(path, "reaccess"); ri >= 0 && ti > ri {
				bad = "the subscriptions are re-checked before the new token is stored: the re-check requests carry the token that was just replaced, and the answer to the old token gates calls made with the new one: " + tr.FmtPath(path)
				break
			}
			// every entered iteration calls reaccess, unconditionally
			nb, nr := countKind(path, "body"), countKind(path, "reaccess")
			if nb != nr {
				bad = fmt.Sprintf("an iteration over the subscriptions skips reaccess (%d iterations, %d calls): %s", nb, nr, tr.FmtPath(path))
				break
			}
		}
		c.check(bad == "", name, "every token change on a connection with a token re-checks every subscription", p.Pos(root.Pos()), fmt.Sprintf("%d paths", len(tr.Paths)), bad)
	}
}

// ---------------------------------------------------------------------------
// C04.1 / C05.1: gates before data hand-out and before call

func ruleGates(c *Ctx) {
	p := c.P
	getRPC := p.Method("server.Subscription.GetRPCResources")
	canGetA := p.Method("rescache.Access.CanGet")
	canCallA := p.Method("rescache.Access.CanCall")
	canCallS := p.Method("server.Subscription.CanCall")
	cacheCall := p.Method("rescache.Cache.Call")
	encGet := p.Method("server.APIEncoder.EncodeGET")
	isDirect := p.Method("codec.Meta.IsDirectResponseStatus")
	onReady := p.Method("server.Subscription.OnReady")
	if getRPC == nil || cacheCall == nil || canCallS == nil {
		c.undecided("server.Subscription.GetRPCResources", "anchor", "-", "not found")
		return
	}
	roots := map[*ssa.Function]bool{}
	for _, f := range p.Repo {
		for _, call := range callsIn(f) {
			if cl, ok := isCallTo(call, getRPC); ok {
				if b, isC := constBool(callArgs(cl.Common())[1]); isC && !b {
					roots[TopLevel(f)] = true
				}
			}
			if _, ok := isCallTo(call, cacheCall); ok {
				roots[TopLevel(f)] = true
			}
			if _, ok := isCallTo(call, encGet); ok {
				roots[TopLevel(f)] = true
			}
			if _, ok := isCallTo(call, onReady); ok && f.Pkg != nil {
				roots[TopLevel(f)] = true
			}
		}
	}
	// a sink that was moved into a helper which did not exist on the reference tree (sendCall split off call):
	// the path to it starts in the functions the helper was extracted from
	for f := range roots {
		if !p.onReferenceTree(f) {
			delete(roots, f)
			for _, r := range p.entryRoots(f, p.onReferenceTree) {
				roots[r] = true
			}
		}
	}
	subPtr := types.NewPointer(p.Named("server.Subscription"))
	var accessPtr types.Type
	if an := p.Named("rescache.Access"); an != nil {
		accessPtr = types.NewPointer(an)
	}
	var names []string
	for f := range roots {
		names = append(names, fnName(f))
	}
	for _, name := range sortedStrings(names) {
		root := p.Fn(name)
		if strings.HasPrefix(name, "(*server.Subscription).") {
			continue // indirect hand-outs inside event processing are covered by the parent's grant
		}
		c.inst(1)
		var actionChecked []Ref
		var actionKeys []string
		sp := &Spec{}
		sp.Classify = func(t *Tracer, fr *Frame, in ssa.Instruction) []Ev {
			if cl, ok := isCallTo(in, getRPC); ok {
				if b, isC := constBool(callArgs(cl.Common())[1]); isC && !b {
					return []Ev{{Kind: "handout", Stop: true}}
				}
			}
			if _, ok := isCallTo(in, encGet); ok {
				return []Ev{{Kind: "handout", Stop: true}}
			}
			// a loaded subscription handed to a continuation (HTTP GET path)
			if cl, ok := in.(ssa.CallInstruction); ok && !cl.Common().IsInvoke() && cl.Common().StaticCallee() == nil {
				if _, isB := cl.Common().Value.(*ssa.Builtin); !isB {
					for _, a := range cl.Common().Args {
						if types.Identical(a.Type(), subPtr) && !isNilConst(a) {
							return []Ev{{Kind: "handout"}}
						}
					}
				}
			}
			if cl, ok := isCallTo(in, canCallS); ok {
				actionChecked = append(actionChecked, t.Resolve(fr, callArgs(cl.Common())[1]))
				actionKeys = append(actionKeys, t.valKey(fr, callArgs(cl.Common())[1], t.cur))
			}
			if cl, ok := isCallTo(in, canCallA); ok {
				actionChecked = append(actionChecked, t.Resolve(fr, callArgs(cl.Common())[1]))
				actionKeys = append(actionKeys, t.valKey(fr, callArgs(cl.Common())[1], t.cur))
			}
			if cl, ok := isCallTo(in, cacheCall); ok {
				act := t.Resolve(fr, callArgs(cl.Common())[4])
				same := false
				for _, a := range actionChecked {
					if a.Key() == act.Key() {
						same = true
					}
				}
				// the action kept in a field of the request's parameter object: two loads of that field with no
				// possible write in between are the same action
				ak := t.valKey(fr, callArgs(cl.Common())[4], t.cur)
				for _, k := range actionKeys {
					if k == ak && strings.HasPrefix(ak, "fld(") {
						same = true
					}
				}
				if !same {
					return []Ev{{Kind: "call:other-action"}}
				}
				return []Ev{{Kind: "call"}}
			}
			return nil
		}
		sp.Branch = func(t *Tracer, fr *Frame, i *ssa.If, dir bool) []Ev {
			if x, nonNil, ok := nilTest(i, dir); ok && isErrorType(x.Type()) {
				r := t.Resolve(fr, x)
				if prm, isP := r.V.(*ssa.Parameter); isP && r.Fr != nil && prm.Parent() == r.Fr.Fn {
					switch r.Fr.Via {
					case "CanGet", "GetHTTPSubscription":
						if nonNil {
							return []Ev{{Kind: "get:denied"}}
						}
						return []Ev{{Kind: "get:granted"}}
					case "CanCall":
						if nonNil {
							return []Ev{{Kind: "call:denied"}}
						}
						return []Ev{{Kind: "call:granted"}}
					}
				}
				if call, isC := r.V.(*ssa.Call); isC {
					f := calleeFunc(call.Common())
					if f == nil && !call.Common().IsInvoke() {
						// the access test handed over as a func value (`check(access, meta, access.CanGet)`)
						if mc, isMC := t.Resolve(r.Fr, call.Common().Value).V.(*ssa.MakeClosure); isMC {
							if bf := mc.Fn.(*ssa.Function); bf.Synthetic != "" {
								f = boundMethod(bf)
							}
						}
					}
					if f != nil {
						switch f {
						case canGetA:
							if nonNil {
								return []Ev{{Kind: "get:denied"}}
							}
							return []Ev{{Kind: "get:granted"}}
						case canCallA:
							if nonNil {
								return []Ev{{Kind: "call:denied"}}
							}
							return []Ev{{Kind: "call:granted"}}
						}
					}
				}
			}
			// meta.IsDirectResponseStatus()
			if call, ok := i.Cond.(*ssa.Call); ok {
				if f := calleeFunc(call.Common()); f != nil && f == isDirect {
					if dir {
						return []Ev{{Kind: "direct-status"}}
					}
				}
			}
			return nil
		}
		sp.Inline = func(t *Tracer, fr *Frame, cl ssa.CallInstruction, fn *ssa.Function) bool {
			if fn.Parent() != nil {
				return true
			}
			// a plain helper of the package that is handed the access answer (checkHTTPAccess(access, ...))
			if fn.Signature.Recv() == nil && fn.Pkg == root.Pkg && accessPtr != nil {
				for _, a := range cl.Common().Args {
					if types.Identical(a.Type(), accessPtr) {
						return true
					}
				}
			}
			// follow the handler's own helpers (same receiver type), not the subscription's
			if TopLevel(fn).Signature.Recv() != nil && root.Signature.Recv() != nil &&
				types.Identical(TopLevel(fn).Signature.Recv().Type(), root.Signature.Recv().Type()) {
				switch fn.Name() {
				case "Subscribe", "Unsubscribe", "subscribe", "removeCount", "tryDelete", "Enqueue", "Send", "Reply":
					return false
				}
				return true
			}
			return false
		}
		tr := runTrace(p, root, sp)
		bad := ""
		nh, nc := 0, 0
		for _, path := range tr.Paths {
			for i, e := range path {
				switch e.Kind {
				case "handout":
					nh++
					ok := false
					for j := i - 1; j >= 0; j-- {
						if path[j].Kind == "get:granted" {
							ok = true
						}
						if path[j].Kind == "get:denied" {
							ok = false
							break
						}
					}
					if !ok {
						bad = "resource data handed out on a path without a get grant: " + tr.FmtPath(path[:i+1])
					}
					if hasKind(path[:i], "direct-status") {
						bad = "resource data handed out although a direct-response meta status ended the request: " + tr.FmtPath(path[:i+1])
					}
				case "call", "call:other-action":
					nc++
					ok := false
					for j := i - 1; j >= 0; j-- {
						if path[j].Kind == "call:granted" {
							ok = true
						}
						if path[j].Kind == "call:denied" {
							ok = false
							break
						}
					}
					if !ok {
						bad = "call forwarded to the service on a path without a call grant: " + tr.FmtPath(path[:i+1])
					}
					if e.Kind == "call:other-action" {
						bad = "the action sent is not the action whose access was checked: " + tr.FmtPath(path[:i+1])
					}
					if hasKind(path[:i], "direct-status") {
						bad = "call forwarded although a direct-response meta status ended the request: " + tr.FmtPath(path[:i+1])
					}
				}
			}
		}
		if tr.Trunc {
			bad = "path budget exhausted"
		}
		c.check(bad == "", name, "data hand-out / call only after the matching access grant on the same path", p.Pos(root.Pos()),
			fmt.Sprintf("%d paths, %d hand-outs, %d calls", len(tr.Paths), nh, nc), bad)
	}
}

// ---------------------------------------------------------------------------
// C04.2 / C05.2: decision lists of Access.CanGet / CanCall

func ruleAccessTables(c *Ctx) {
	p := c.P
	fErr := p.Field("rescache.Access.Error")
	fGet := p.Field("codec.AccessResult.Get")
	fCall := p.Field("codec.AccessResult.Call")
	for _, nm := range []string{"(*rescache.Access).CanGet", "(*rescache.Access).CanCall"} {
		fn := p.Fn(nm)
		if fn == nil {
			c.undecided(nm, "anchor", "-", "not found")
			continue
		}
		c.inst(1)
		sp := &Spec{EdgeLimit: 2}
		sp.Classify = func(t *Tracer, fr *Frame, in ssa.Instruction) []Ev {
			if r, ok := in.(*ssa.Return); ok && fr == t.RootFr {
				if isNilConst(t.Resolve(fr, r.Results[0]).V) {
					return []Ev{{Kind: "grant"}}
				}
				return []Ev{{Kind: "deny"}}
			}
			if v, ok := in.(ssa.Value); ok {
				if f, _ := fieldLoad(v); f != nil && (f == fGet || f == fCall) {
					return []Ev{{Kind: "touch-result"}}
				}
			}
			return nil
		}
		sp.Branch = func(t *Tracer, fr *Frame, i *ssa.If, dir bool) []Ev {
			if x, nonNil, ok := nilTest(i, dir); ok {
				if f, _ := fieldLoad(x); f == fErr {
					if nonNil {
						return []Ev{{Kind: "error"}}
					}
					return []Ev{{Kind: "noerror"}}
				}
			}
			if f, _ := fieldLoad(i.Cond); f == fGet {
				if dir {
					return []Ev{{Kind: "get=true"}}
				}
				return []Ev{{Kind: "get=false"}}
			}
			if b, ok := i.Cond.(*ssa.BinOp); ok && (b.Op == token.EQL || b.Op == token.NEQ) {
				eq := (b.Op == token.EQL) == dir
				if s, isS := constString(b.Y); isS {
					if f, _ := fieldLoad(b.X); f == fCall {
						return []Ev{{Kind: fmt.Sprintf("call%s%q", map[bool]string{true: "==", false: "!="}[eq], s)}}
					}
				}
				// string(s[i+1:e]) == action — action being the root's string parameter, possibly handed on
				// to a list-scanning helper (while probing a helper for interest: any string parameter)
				isAction := func(v ssa.Value) bool {
					prm, isP := t.Resolve(fr, v).V.(*ssa.Parameter)
					if !isP {
						return false
					}
					if bt, isB := prm.Type().Underlying().(*types.Basic); !isB || bt.Kind() != types.String {
						return false
					}
					return prm.Parent() == fn || fr.ID == -1
				}
				if isAction(b.Y) || isAction(b.X) {
					if eq {
						return []Ev{{Kind: "entry==action"}}
					}
					return []Ev{{Kind: "entry!=action"}}
				}
			}
			return nil
		}
		tr := runTrace(p, fn, sp)
		bad := ""
		for _, path := range tr.Paths {
			ti := indexKind(path, "touch-result")
			ei := indexKind(path, "noerror")
			if ti >= 0 && (ei < 0 || ei > ti) {
				bad = "the access result is read before the error test (nil dereference on an error answer, or an error treated as a grant): " + tr.FmtPath(path)
			}
			if hasKind(path, "grant") {
				switch nm {
				case "(*rescache.Access).CanGet":
					if !(hasKind(path, "noerror") && hasKind(path, "get=true")) {
						bad = "get granted on a path that is not (no error ∧ get == true): " + tr.FmtPath(path)
					}
				default:
					if !hasKind(path, "noerror") || !(hasKind(path, `call=="*"`) || hasKind(path, "entry==action")) {
						bad = "call granted on a path that is neither call == \"*\" nor an exact list entry: " + tr.FmtPath(path)
					}
					if hasKind(path, `call==""`) {
						bad = "call granted with an empty call list: " + tr.FmtPath(path)
					}
				}
			}
		}
		if tr.Trunc {
			bad = "path budget exhausted"
		}
		c.check(bad == "", nm, "grant only through the listed decision path; error tested first", p.Pos(fn.Pos()), fmt.Sprintf("%d paths", len(tr.Paths)), bad)
	}
}

func isParam(v ssa.Value, name string) bool {
	prm, ok := v.(*ssa.Parameter)
	return ok && prm.Name() == name
}

// ---------------------------------------------------------------------------
// C04.4: verdict cached only for a result or system.accessDenied

func ruleVerdictStore(c *Ctx) {
	p := c.P
	fAccess := p.Field("server.Subscription.access")
	fErr := p.Field("rescache.Access.Error")
	fCode := p.Field("reserr.Error.Code")
	fState := p.Field("server.Subscription.state")
	if fAccess == nil || fErr == nil || fCode == nil {
		c.undecided("server.Subscription.access", "anchor", "-", "not found")
		return
	}
	for _, st := range p.stores[fAccess] {
		if isNilConst(st.Val) {
			continue
		}
		c.inst(1)
		name := fnName(st.Parent())
		pos := p.InstrPos(st)
		// every predecessor edge into the store's block must assert Error == nil or Error.Code == accessDenied
		b := st.Block()
		ok := len(b.Preds) > 0
		for _, pr := range b.Preds {
			i := blockIf(pr)
			if i == nil {
				ok = false
				break
			}
			dirTrue := pr.Succs[0] == b
			good := false
			if x, nonNil, isN := nilTest(i, dirTrue); isN && !nonNil {
				if f, _ := fieldLoad(x); f == fErr {
					good = true
				}
			}
			if bo, isB := i.Cond.(*ssa.BinOp); isB && bo.Op == token.EQL && dirTrue {
				if s, isS := constString(bo.Y); isS && s == "system.accessDenied" {
					if f, _ := fieldLoad(bo.X); f == fCode {
						good = true
					}
				}
			}
			if !good {
				ok = false
			}
		}
		c.check(ok, name, "verdict cached only for a result or system.accessDenied", pos, "store reached only through Error == nil or Error.Code == system.accessDenied", "verdict is cached for other outcomes too (e.g. timeouts would be remembered as denials)")
		// and only while the subscription is alive
		g := p.guardedBy(st, fieldCmpGuard(fState, 7, func(v int64) bool { return v != 0 }))
		c.check(g != nil, name, "late access answers are absorbed after dispose", pos, "dominated by the not-disposed edge of s.state", "access answer task touches a disposed subscription")
	}
}

// stateSetEv is the event a Branch hook emits for a test of an enumerated
// state field: the set of values (0..n-1) the field may have on that edge.
func stateSetEv(base string, set map[int64]bool, n int64) Ev {
	var ss []string
	for v := int64(0); v < n; v++ {
		if set[v] {
			ss = append(ss, fmt.Sprint(v))
		}
	}
	return Ev{Kind: "stateset", Note: base + "|" + strings.Join(ss, ",")}
}

// foldStateSets intersects, per path and per tested object, the sets of all
// stateset events (a range comparison and an explicit list of states give the
// same intersection) and replaces them by one event of the kind verdict
// returns for the intersection (dropped if ""), placed where the last test was.
func foldStateSets(tr *Tracer, n int64, verdict func(may map[int64]bool) string) {
	for pi, path := range tr.Paths {
		may := map[string]map[int64]bool{}
		last := map[string]int{}
		for k, e := range path {
			if e.Kind != "stateset" {
				continue
			}
			i := strings.LastIndex(e.Note, "|")
			base, csv := e.Note[:i], e.Note[i+1:]
			if may[base] == nil {
				may[base] = map[int64]bool{}
				for v := int64(0); v < n; v++ {
					may[base][v] = true
				}
			}
			allowed := map[string]bool{}
			for _, x := range strings.Split(csv, ",") {
				allowed[x] = true
			}
			for v := range may[base] {
				if !allowed[fmt.Sprint(v)] {
					delete(may[base], v)
				}
			}
			last[base] = k
		}
		if len(last) == 0 {
			continue
		}
		var np []Ev
		for k, e := range path {
			if e.Kind != "stateset" {
				np = append(np, e)
				continue
			}
			i := strings.LastIndex(e.Note, "|")
			base := e.Note[:i]
			if last[base] == k {
				if kind := verdict(may[base]); kind != "" {
					e.Kind, e.Note = kind, base
					np = append(np, e)
				}
			}
		}
		tr.Paths[pi] = np
	}
}

// isStoreToT is isStoreTo inside the trace engine: the address is resolved
// across frames, so that a store through a pointer parameter of a small
// wrapper method (`func (p *ridPath) push(..) { *p = append(*p, ..) }`,
// `func (q *queue) clear() { q.items = nil }`) is seen as the store to the
// field the caller passed.
func isStoreToT(t *Tracer, fr *Frame, in ssa.Instruction, f *types.Var) (*ssa.Store, bool) {
	st, ok := in.(*ssa.Store)
	if !ok || f == nil {
		return nil, false
	}
	if fa, ok := st.Addr.(*ssa.FieldAddr); ok {
		if fieldOfAddr(fa) == f {
			return st, true
		}
		return nil, false
	}
	if t == nil || fr == nil {
		return nil, false
	}
	if prm, isP := st.Addr.(*ssa.Parameter); isP {
		if fa, ok := t.Resolve(fr, st.Addr).V.(*ssa.FieldAddr); ok && fieldOfAddr(fa) == f {
			return st, true
		}
		// while probing a helper for interest: a pointer parameter to the field's type may be the field
		if fr.ID == -1 {
			if pt, ok := prm.Type().Underlying().(*types.Pointer); ok && types.Identical(pt.Elem(), f.Type()) {
				return st, true
			}
		}
	}
	return nil, false
}
