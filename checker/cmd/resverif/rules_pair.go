package main

import (
	"fmt"
	"go/token"
	"go/types"
	"sort"
	"strings"

	"golang.org/x/tools/go/ssa"
)

// nilTest decodes `X != nil` / `X == nil`; nonNil says whether the dir edge
// asserts X != nil.
func nilTest(i *ssa.If, dir bool) (x ssa.Value, nonNil bool, ok bool) {
	cond := i.Cond
	for k := 0; k < 4; k++ {
		u, isU := cond.(*ssa.UnOp)
		if !isU || u.Op != token.NOT {
			break
		}
		cond, dir = u.X, !dir // `!(x != nil)`: a presence flag computed by the caller and negated by a helper
	}
	b, isB := cond.(*ssa.BinOp)
	if !isB || (b.Op != token.EQL && b.Op != token.NEQ) {
		return nil, false, false
	}
	switch {
	case isNilConst(b.Y):
		x = b.X
	case isNilConst(b.X):
		x = b.Y
	default:
		return nil, false, false
	}
	return x, (b.Op == token.NEQ) == dir, true
}

// cmpConst decodes `X op const` (either side) normalised to X on the left.
func cmpConst(v ssa.Value) (x ssa.Value, op token.Token, c int64, ok bool) {
	b, isB := v.(*ssa.BinOp)
	if !isB {
		return nil, 0, 0, false
	}
	flip := map[token.Token]token.Token{token.LSS: token.GTR, token.GTR: token.LSS, token.LEQ: token.GEQ, token.GEQ: token.LEQ, token.EQL: token.EQL, token.NEQ: token.NEQ}
	if _, okop := flip[b.Op]; !okop {
		return nil, 0, 0, false
	}
	if k, isC := constInt(b.Y); isC {
		return b.X, b.Op, k, true
	}
	if k, isC := constInt(b.X); isC {
		return b.Y, flip[b.Op], k, true
	}
	return nil, 0, 0, false
}

// satisfying returns the values in [0,n) for which `v op c` has truth dir.
func satisfying(op token.Token, c int64, dir bool, n int64) map[int64]bool {
	out := map[int64]bool{}
	for v := int64(0); v < n; v++ {
		var r bool
		switch op {
		case token.LSS:
			r = v < c
		case token.GTR:
			r = v > c
		case token.LEQ:
			r = v <= c
		case token.GEQ:
			r = v >= c
		case token.EQL:
			r = v == c
		case token.NEQ:
			r = v != c
		}
		if r == dir {
			out[v] = true
		}
	}
	return out
}

func isErrorType(t types.Type) bool {
	return types.Identical(t, types.Universe.Lookup("error").Type())
}

func isCallTo(in ssa.Instruction, fs ...*types.Func) (ssa.CallInstruction, bool) {
	c, ok := in.(ssa.CallInstruction)
	if !ok {
		return nil, false
	}
	f := calleeFunc(c.Common())
	if f == nil {
		return nil, false
	}
	for _, g := range fs {
		if g != nil && f == g {
			return c, true
		}
	}
	return nil, false
}

// inlineLocal: descend into closures called directly and into repository
// helpers that receive any of the tracked values.
func inlineIfArg(pred func(t *Tracer, fr *Frame, v ssa.Value) bool) func(t *Tracer, fr *Frame, c ssa.CallInstruction, fn *ssa.Function) bool {
	return func(t *Tracer, fr *Frame, c ssa.CallInstruction, fn *ssa.Function) bool {
		if fn.Parent() != nil {
			return true
		}
		if pred == nil {
			return false
		}
		for _, a := range callArgs(c.Common()) {
			if pred(t, fr, a) {
				return true
			}
		}
		return false
	}
}

// ---------------------------------------------------------------------------
// PAIR/direct-count (C08.1, C04.3)

// subscribeTypeHandlers keep the direct subscription on success; every other
// function that takes a direct subscription must release it on all paths.
var subscribeTypeHandlers = map[string]string{
	"(*server.wsConn).SubscribeResource":    "subscribe request: kept on success",
	"(*server.wsConn).handleResourceResult": "resource response of call/auth/new: kept (also with an error placeholder)",
}

func rulePairDirect(c *Ctx) {
	p := c.P
	subFns := []*types.Func{p.Method("server.wsConn.Subscribe"), p.Method("server.ConnSubscriber.Subscribe")}
	unsubFns := []*types.Func{p.Method("server.wsConn.Unsubscribe"), p.Method("server.ConnSubscriber.Unsubscribe")}
	errFn := p.Method("server.Subscription.Error")
	canGet := p.Method("rescache.Access.CanGet")
	if subFns[0] == nil || unsubFns[0] == nil || errFn == nil {
		c.undecided("server.wsConn.Subscribe/Unsubscribe", "anchor", "-", "method not found")
		return
	}
	// discover roots: top-level functions containing a direct acquire
	roots := map[*ssa.Function]bool{}
	for _, f := range p.Repo {
		for _, call := range callsIn(f) {
			if _, ok := isCallTo(call, subFns...); ok {
				args := callArgs(call.Common())
				if b, isC := constBool(args[2]); isC && b {
					for _, r := range p.entryRoots(TopLevel(f), func(g *ssa.Function) bool { _, listed := subscribeTypeHandlers[fnName(g)]; return listed }) {
						roots[r] = true
					}
				}
			}
		}
	}
	var names []string
	for f := range roots {
		names = append(names, fnName(f))
	}
	for _, name := range sortedStrings(names) {
		root := p.Fn(name)
		c.inst(1)
		_, keep := subscribeTypeHandlers[name]
		var acq *ssa.Call
		sp := &Spec{}
		isSub := func(t *Tracer, fr *Frame, v ssa.Value) bool {
			r := t.Resolve(fr, v)
			if e, ok := r.V.(*ssa.Extract); ok && e.Index == 0 && acq != nil && e.Tuple == ssa.Value(acq) {
				return true
			}
			return false
		}
		sp.Classify = func(t *Tracer, fr *Frame, in ssa.Instruction) []Ev {
			if call, ok := isCallTo(in, subFns...); ok {
				args := callArgs(call.Common())
				if b, isC := constBool(args[2]); isC && b {
					if cv, ok := call.(*ssa.Call); ok {
						acq = cv
					}
					return []Ev{{Kind: "acquire"}}
				}
			}
			if call, ok := isCallTo(in, unsubFns...); ok {
				args := callArgs(call.Common())
				if isSub(t, fr, args[1]) {
					d, dc := constBool(args[2])
					n, nc := constInt(args[4])
					if dc && d && nc && n == 1 {
						return []Ev{{Kind: "release", Stop: true}}
					}
					return []Ev{{Kind: "release:bad", Note: "direct/count arguments are not (true, 1)", Stop: true}}
				}
			} else if call, ok := in.(ssa.CallInstruction); ok {
				// a release through another function of the package (the bool parameter replaced by two
				// functions, a helper around them): what it lowers on the subscription it is handed decides
				if sf := call.Common().StaticCallee(); sf != nil && p.isRepoFn(sf) && sf.Parent() == nil && sf.Pkg == t.Root.Pkg {
					args := callArgs(call.Common())
					for ai, a := range args {
						if ai >= len(sf.Params) || !isSub(t, fr, a) {
							continue
						}
						dirDec, indDec := p.decrementsOn(sf, ai, 0)
						if !dirDec {
							continue
						}
						cntOK, cntSeen := true, false
						for bi, b := range args {
							if bt, isB := b.Type().Underlying().(*types.Basic); isB && bt.Info()&types.IsInteger != 0 && bi != ai {
								cntSeen = true
								if n, nc := constInt(t.Resolve(fr, b).V); !nc || n != 1 {
									cntOK = false
								}
							}
						}
						if indDec {
							// lowers either count: the first bool argument says which
							isDirect := false
							for _, b := range args {
								if bt, isB := b.Type().Underlying().(*types.Basic); isB && bt.Kind() == types.Bool {
									if d, dc := constBool(t.Resolve(fr, b).V); dc && d {
										isDirect = true
									}
									break
								}
							}
							if !isDirect {
								continue
							}
						}
						if cntOK || !cntSeen {
							return []Ev{{Kind: "release", Stop: true}}
						}
						return []Ev{{Kind: "release:bad", Note: "the count released is not 1", Stop: true}}
					}
				}
			}
			// the request's own answer: the root's callback called with a nil / non-nil error
			if call, ok := in.(ssa.CallInstruction); ok && !call.Common().IsInvoke() && call.Common().StaticCallee() == nil {
				if _, isB := call.Common().Value.(*ssa.Builtin); !isB {
					r := t.Resolve(fr, call.Common().Value)
					if prm, isP := r.V.(*ssa.Parameter); isP && r.Fr == t.RootFr && len(call.Common().Args) > 0 {
						_ = prm
						last := call.Common().Args[len(call.Common().Args)-1]
						if isErrorType(last.Type()) {
							if isNilConst(t.Resolve(fr, last).V) {
								return []Ev{{Kind: "reply:ok"}}
							}
							return []Ev{{Kind: "reply:err"}}
						}
					}
				}
			}
			return nil
		}
		sp.Branch = func(t *Tracer, fr *Frame, i *ssa.If, dir bool) []Ev {
			x, nonNil, ok := nilTest(i, dir)
			if !ok || !isErrorType(x.Type()) {
				return nil
			}
			r := t.Resolve(fr, x)
			// error result of the acquire
			if e, isE := r.V.(*ssa.Extract); isE && acq != nil && e.Tuple == ssa.Value(acq) && e.Index == 1 {
				if nonNil {
					return []Ev{{Kind: "acqfail"}}
				}
				return nil
			}
			if !nonNil {
				// the nil error of a get-access continuation: the grant
				if prm, isP := r.V.(*ssa.Parameter); isP && r.Fr != nil && r.Fr.Via == "CanGet" && prm.Parent() == r.Fr.Fn {
					return []Ev{{Kind: "granted"}}
				}
				if call, isC := r.V.(*ssa.Call); isC {
					if f := calleeFunc(call.Common()); f != nil && f == canGet {
						return []Ev{{Kind: "granted"}}
					}
				}
				return nil
			}
			// error handed to a continuation by a combinator, sub.Error(), access.CanGet()
			if prm, isP := r.V.(*ssa.Parameter); isP && r.Fr != nil && r.Fr.Via != "" && prm.Parent() == r.Fr.Fn {
				return []Ev{{Kind: "fail", Note: "continuation error"}}
			}
			if call, isC := r.V.(*ssa.Call); isC {
				if f := calleeFunc(call.Common()); f != nil && (f == canGet || (f == errFn && isSub(t, r.Fr, callArgs(call.Common())[0]))) {
					return []Ev{{Kind: "fail", Note: f.Name()}}
				}
			}
			return nil
		}
		sp.Inline = func(t *Tracer, fr *Frame, c ssa.CallInstruction, fn *ssa.Function) bool {
			if fn.Parent() != nil {
				return true
			}
			// helpers that are handed the subscription as an ordinary argument (not methods on it)
			args := callArgs(c.Common())
			for i, a := range args {
				if i == 0 && fn.Signature.Recv() != nil {
					continue
				}
				if isSub(t, fr, a) {
					return true
				}
			}
			return false
		}
		tr := NewTracer(p, sp, root)
		tr.Run()
		pos := p.Pos(root.Pos())
		what := "failed request leaves no direct subscription"
		if keep {
			what = "direct subscription kept exactly on success, released on every failure"
		}
		if tr.Trunc {
			c.undecided(name, what, pos, "path budget exhausted")
			continue
		}
		bad := ""
		nAcq := 0
		for _, path := range tr.Paths {
			var acquired, acqfail, fail, drop bool
			rel := 0
			for _, e := range path {
				switch {
				case e.Kind == "acquire":
					acquired = true
				case e.Kind == "acqfail":
					acqfail = true
				case e.Kind == "fail":
					fail = true
				case e.Kind == "release":
					rel++
				case e.Kind == "release:bad":
					bad = e.Note + " @" + p.InstrPos(e.Instr)
				case strings.HasPrefix(e.Kind, "drop:"):
					drop = true
				}
			}
			if !acquired {
				continue
			}
			nAcq++
			switch {
			case acqfail:
				if rel != 0 {
					bad = "a subscription that was never counted (Subscribe returned an error) is released: " + tr.FmtPath(path)
				}
			case drop:
				// connection refused the task: it is disposing, dispose releases everything
			case keep && !fail:
				if rel != 0 {
					bad = "success path releases the subscription it reports as held: " + tr.FmtPath(path)
				}
				// a direct subscription that is kept is one the service granted get access to, for this request:
				// being already sent to the client (through a reference) is not a grant
				if bad == "" && !hasKind(path, "granted") && !hasKind(path, "escape") {
					bad = "a direct subscription is kept on a path that did not pass a get grant: the client holds (and keeps receiving the events of) a resource no access answer allowed: " + tr.FmtPath(path)
				}
			case keep && replyOKBeforeFail(path):
				// the client was told it holds the resource (a resource response counts as a direct
				// subscription, whatever the resource's own load outcome): nothing is released. (The answer
				// that carries an access error in place of the resource — sent after the failed grant — hands
				// nothing over and keeps nothing: C04 forbids keeping it.)
				if rel != 0 {
					bad = "the request is answered with success — the client now counts one direct subscription — and the gateway releases it: a later unsubscribe fails with noSubscription: " + tr.FmtPath(path)
				}
			default:
				if rel != 1 {
					bad = fmt.Sprintf("path releases the direct subscription %d times (want 1): %s", rel, tr.FmtPath(path))
				}
			}
			if bad != "" {
				break
			}
		}
		if bad != "" && name == "(*server.wsConn).GetHTTPSubscription" && strings.Contains(bad, "releases the direct subscription 0 times") {
			// listed exception: the temporary HTTP connection is disposed by the response writer
			if tempConnOnly(p, root) {
				c.ok(name, what, pos, "exception: load-error branch keeps the count, but the function is only reachable from temporaryConn callbacks whose response writer disposes the connection (C11 DOM/temp-conn)")
				continue
			}
		}
		if bad != "" {
			c.viol(name, what, pos, bad)
		} else {
			c.ok(name, what, pos, fmt.Sprintf("%d full paths with an acquire; release discipline holds on each", nAcq))
		}
	}
}

// tempConnOnly: fn is called only from inside closures handed to
// (*Service).temporaryConn (whose response writer disposes the connection).
func tempConnOnly(p *Prog, fn *ssa.Function) bool {
	n := p.CG.Nodes[fn]
	if n == nil || len(n.In) == 0 {
		return false
	}
	tc := p.Method("server.Service.temporaryConn")
	if tc == nil {
		return false
	}
	inTemp := func(g *ssa.Function) bool {
		for ; g != nil && g.Parent() != nil; g = g.Parent() {
			mc := p.parent[g]
			if mc == nil || mc.Referrers() == nil {
				continue
			}
			for _, r := range *mc.Referrers() {
				if call, ok := isCallTo(r, tc); ok {
					for _, a := range call.Common().Args {
						if stripConv(a) == ssa.Value(mc) {
							return true
						}
					}
				}
			}
		}
		return false
	}
	for _, e := range n.In {
		if e.Caller.Func == nil || !inTemp(e.Caller.Func) {
			return false
		}
	}
	return true
}

func sortedStrings(s []string) []string {
	m := map[string]bool{}
	for _, x := range s {
		m[x] = true
	}
	return sortedKeys(m)
}

// ---------------------------------------------------------------------------
// PAIR/loaded-handover (C11.2, C09.5) and LIN/loaded-once (C13.6)

func rulePairLoaded(c *Ctx) {
	p := c.P
	root := p.Fn("(*server.Subscription).Loaded")
	if root == nil {
		c.undecided("(*server.Subscription).Loaded", "anchor", "-", "function not found")
		return
	}
	fResSub := p.Field("server.Subscription.resourceSub")
	fState := p.Field("server.Subscription.state")
	unsub := p.Method("rescache.ResourceSubscription.Unsubscribe")
	isRS := func(t *Tracer, fr *Frame, v ssa.Value) bool {
		r := t.Resolve(fr, v)
		return r.Fr == t.RootFr && r.V == ssa.Value(root.Params[1])
	}
	sp := &Spec{}
	sp.Classify = func(t *Tracer, fr *Frame, in ssa.Instruction) []Ev {
		switch x := in.(type) {
		case *ssa.Store:
			if fa, ok := x.Addr.(*ssa.FieldAddr); ok && fieldOfAddr(fa) == fResSub && isRS(t, fr, x.Val) {
				return []Ev{{Kind: "own"}}
			}
			if fa, ok := x.Addr.(*ssa.FieldAddr); ok && fieldOfAddr(fa) == fState {
				if k, ok := constInt(x.Val); ok {
					return []Ev{{Kind: fmt.Sprintf("state=%d", k)}}
				}
			}
		case ssa.CallInstruction:
			if _, ok := isCallTo(in, unsub); ok {
				args := callArgs(x.Common())
				if isRS(t, fr, args[0]) {
					return []Ev{{Kind: "release"}}
				}
			}
		}
		return nil
	}
	sp.Branch = func(t *Tracer, fr *Frame, i *ssa.If, dir bool) []Ev {
		if x, nonNil, ok := nilTest(i, dir); ok {
			r := t.Resolve(fr, x)
			if r.Fr == t.RootFr && r.V == ssa.Value(root.Params[2]) {
				if nonNil {
					return []Ev{{Kind: "err"}}
				}
				return []Ev{{Kind: "noerr"}}
			}
		}
		if x, op, k, ok := cmpConst(i.Cond); ok {
			if f, _ := fieldLoad(x); f == fState {
				set := satisfying(op, k, dir, 7)
				var ss []string
				for v := int64(0); v < 7; v++ {
					if set[v] {
						ss = append(ss, fmt.Sprint(v))
					}
				}
				return []Ev{{Kind: "state∈{" + strings.Join(ss, ",") + "}"}}
			}
		}
		return nil
	}
	sp.Inline = inlineIfArg(isRS)
	tr := NewTracer(p, sp, root)
	tr.Run()
	c.inst(1)
	pos := p.Pos(root.Pos())
	bad, badOnce := "", ""
	nNoErr := 0
	for _, path := range tr.Paths {
		own, rel, noerr, iserr := 0, 0, false, false
		stateSet := map[string]bool{}
		reinit := false
		for _, e := range path {
			switch {
			case e.Kind == "own":
				own++
			case e.Kind == "release":
				rel++
			case e.Kind == "noerr":
				noerr = true
			case e.Kind == "err":
				iserr = true
			case strings.HasPrefix(e.Kind, "state∈"):
				stateSet[e.Kind] = true
			case e.Kind == "state=2": // stateLoaded: (re)initialisation
				reinit = true
			}
		}
		// states the subscription may be in on this path: intersection of the guards passed
		may := map[int64]bool{0: true, 1: true, 2: true, 3: true, 4: true, 5: true, 6: true}
		for g := range stateSet {
			inner := strings.TrimSuffix(strings.TrimPrefix(g, "state∈{"), "}")
			allowed := map[string]bool{}
			for _, x := range strings.Split(inner, ",") {
				allowed[x] = true
			}
			for v := range may {
				if !allowed[fmt.Sprint(v)] {
					delete(may, v)
				}
			}
		}
		if reinit {
			// LIN/loaded-once: initialisation only while the subscription is still loading
			for v := range may {
				if v != 1 { // stateLoading
					badOnce = fmt.Sprintf("subscription is (re)initialised although it may be in state %d (not stateLoading): %s", v, tr.FmtPath(path))
				}
			}
		}
		_ = noerr
		if iserr {
			continue // load failed: there is no resource to own or release
		}
		nNoErr++
		if own+rel == 1 {
			continue
		}
		if own+rel == 0 {
			// ignoring a delivery is fine only for a subscription that already owns a resource:
			// it must be known to be past loading and not disposed
			okIgnore := len(may) > 0
			for v := range may {
				if v < 2 {
					okIgnore = false
				}
			}
			if okIgnore {
				continue
			}
			bad = "loaded resource is neither kept nor released (cache use leaks): " + tr.FmtPath(path)
		} else {
			bad = fmt.Sprintf("loaded resource kept %d and released %d times: %s", own, rel, tr.FmtPath(path))
		}
	}
	if tr.Trunc {
		bad = "path budget exhausted"
	}
	c.check(bad == "", "(*server.Subscription).Loaded", "a successfully loaded resource is owned or released exactly once on every path", pos,
		fmt.Sprintf("%d success paths (Enqueue refused, disposed, repeated, normal)", nNoErr), bad)
	c.res.Obs = append(c.res.Obs, Ob{Rule: "LIN/loaded-once", Construct: "(*server.Subscription).Loaded$1", What: "repeated Loaded is ignored", Pos: pos,
		Status: map[bool]string{true: OK, false: Violation}[badOnce == ""], Detail: map[bool]string{true: "initialisation (state = stateLoaded) only on paths where the state is known to be stateLoading", false: badOnce}[badOnce == ""]})
}

// ---------------------------------------------------------------------------
// PAIR/cache-count (C09.2)

func rulePairCacheCount(c *Ctx) {
	p := c.P
	getSub := p.Fn("(*rescache.Cache).getSubscription") // may be gone (split into several acquirers): found by shape below
	fCount := p.Field("rescache.EventSubscription.count")
	addCount := p.Method("rescache.EventSubscription.addCount")
	removeCount := p.Method("rescache.EventSubscription.removeCount")
	addSubscriber := p.Method("rescache.EventSubscription.addSubscriber")
	esType := p.Named("rescache.EventSubscription")
	fMqSub := p.Field("rescache.EventSubscription.mqSub")
	fEventSubs := p.Field("rescache.Cache.eventSubs")

	countEvents := func(t *Tracer, fr *Frame, in ssa.Instruction) []Ev {
		switch x := in.(type) {
		case *ssa.Store:
			if fa, ok := x.Addr.(*ssa.FieldAddr); ok && fieldOfAddr(fa) == fCount {
				if k, ok := constInt(x.Val); ok && k == 1 {
					base := fa.X
					for {
						inner, isFA := base.(*ssa.FieldAddr)
						if !isFA {
							break
						}
						base = inner.X // a counter wrapped in a nested struct of the new entry
					}
					if _, isAlloc := base.(*ssa.Alloc); isAlloc {
						return []Ev{{Kind: "count+1", Note: "new entry"}}
					}
				}
				return []Ev{{Kind: "count?", Note: "unrecognised store to count"}}
			}
		case ssa.CallInstruction:
			if _, ok := isCallTo(in, addCount); ok {
				return []Ev{{Kind: "count+1", Note: "addCount", Stop: true}}
			}
			if call, ok := isCallTo(in, removeCount); ok {
				if k, ok := constInt(callArgs(call.Common())[1]); ok && k == 1 {
					return []Ev{{Kind: "count-1", Stop: true}}
				}
				return []Ev{{Kind: "count?", Note: "removeCount with non-constant", Stop: true}}
			}
		}
		return nil
	}

	// the acquirers: getSubscription and every other unexported function of the package that returns an
	// *EventSubscription (alone or with an error) and counts a use on some path (a split-up getSubscription)
	returnsES := func(f *ssa.Function) (errIdx int, ok bool) {
		res := f.Signature.Results()
		if res.Len() == 0 || res.Len() > 4 || esType == nil {
			return -1, false
		}
		pt, isPtr := res.At(0).Type().(*types.Pointer)
		if !isPtr || !types.Identical(pt.Elem(), esType) {
			return -1, false
		}
		// further results (a "was cached" flag, ...) do not matter; the error result is the one of type error
		ei := -1
		for i := 1; i < res.Len(); i++ {
			if isErrorType(res.At(i).Type()) {
				if ei >= 0 {
					return -1, false
				}
				ei = i
			}
		}
		if res.Len() == 2 && ei < 0 {
			return -1, false
		}
		return ei, true
	}
	acquirers := map[*ssa.Function]int{} // -> index of the error result, or -1
	for _, f := range p.Repo {
		if f.Parent() != nil || f.Pkg == nil || f.Pkg.Pkg.Name() != "rescache" || f.Object() == nil || (f.Object().Exported() && f != getSub) {
			continue
		}
		ei, ok := returnsES(f)
		if !ok {
			continue
		}
		if f == getSub {
			acquirers[f] = ei
			continue
		}
		counts := false
		for _, g := range p.withHelpers(f) {
			for _, in := range instrsOf(g) {
				for _, e := range countEvents(nil, nil, in) {
					if e.Kind == "count+1" {
						counts = true
					}
				}
			}
		}
		if counts {
			acquirers[f] = ei
		}
	}
	var acqList []*ssa.Function
	var acqFuncs []*types.Func
	for f := range acquirers {
		acqList = append(acqList, f)
	}
	if len(acqList) == 0 {
		c.undecided("(*rescache.Cache).getSubscription", "anchor", "-", "no function that acquires a cache use found")
		return
	}
	sort.Slice(acqList, func(i, j int) bool { return fnName(acqList[i]) < fnName(acqList[j]) })
	for _, f := range acqList {
		if o, ok := f.Object().(*types.Func); ok {
			acqFuncs = append(acqFuncs, o)
		}
	}

	// (a) inside every acquirer: +1 on a successful return, net 0 on an error return
	for _, acqFn := range acqList {
		ei := acquirers[acqFn]
		sp := &Spec{}
		sp.Classify = func(t *Tracer, fr *Frame, in ssa.Instruction) []Ev {
			if x, ok := in.(*ssa.Return); ok {
				if fr == t.RootFr {
					if ei < 0 || isNilConst(t.Resolve(fr, x.Results[ei]).V) {
						return []Ev{{Kind: "return:ok"}}
					}
					return []Ev{{Kind: "return:err"}}
				}
				return nil
			}
			if st, ok := isStoreToT(t, fr, in, fMqSub); ok && !isNilConst(st.Val) {
				return []Ev{{Kind: "mqSub="}}
			}
			if mu, ok := in.(*ssa.MapUpdate); ok && fEventSubs != nil {
				if f, _ := fieldLoad(mu.Map); f == fEventSubs {
					return []Ev{{Kind: "register"}}
				}
			}
			// a nested acquirer is decided on its own: it counts one use when it succeeds
			if call, ok := isCallTo(in, acqFuncs...); ok && fr == t.RootFr {
				if sf := call.Common().StaticCallee(); sf != nil && sf != acqFn && acquirers[sf] < 0 {
					return []Ev{{Kind: "count+1", Note: "nested acquirer", Stop: true}}
				}
			}
			return countEvents(t, fr, in)
		}
		sp.Branch = func(t *Tracer, fr *Frame, i *ssa.If, dir bool) []Ev {
			r := t.Resolve(fr, i.Cond)
			if fr == t.RootFr {
				for _, prm := range acqFn.Params {
					if b, ok := prm.Type().Underlying().(*types.Basic); ok && b.Kind() == types.Bool && r.V == ssa.Value(prm) {
						if dir {
							return []Ev{{Kind: "subscribe=true"}}
						}
						return []Ev{{Kind: "subscribe=false"}}
					}
				}
			}
			if x, nn, ok := nilTest(i, dir); ok && nn && fMqSub != nil {
				if f, _ := fieldLoad(t.Resolve(fr, x).V); f == fMqSub {
					return []Ev{{Kind: "has-mqsub"}}
				}
			}
			return nil
		}
		hasBool := false
		for _, prm := range acqFn.Params {
			if b, ok := prm.Type().Underlying().(*types.Basic); ok && b.Kind() == types.Bool {
				hasBool = true
			}
		}
		tr := NewTracer(p, sp, acqFn)
		tr.Run()
		c.inst(1)
		badOK, badErr, badSub, badMq, badReg := "", "", "", "", ""
		subscribes := ei >= 0 // an acquirer that can fail is one that subscribes
		for _, path := range tr.Paths {
			net, ret, sub := 0, "", false
			plus := 0
			for _, e := range path {
				switch e.Kind {
				case "count+1":
					net++
					plus++
				case "count-1":
					net--
				case "count?":
					badOK = e.Note + " @" + p.InstrPos(e.Instr)
				case "return:ok", "return:err":
					ret = e.Kind
				case "subscribe=true":
					sub = true
				}
			}
			if ret == "return:ok" && net != 1 {
				badOK = fmt.Sprintf("successful return with net count %+d (want +1): %s", net, tr.FmtPath(path))
			}
			if ret == "return:err" && net != 0 {
				badErr = fmt.Sprintf("error return with net count %+d (want 0: nobody can release it): %s", net, tr.FmtPath(path))
			}
			if ret == "return:err" && hasBool && !sub {
				badSub = "an error can be returned although no mq subscription was requested (sendRequest ignores the error): " + tr.FmtPath(path)
			}
			// an entry put into the cache's index is counted on that path: the eviction queue is entered only
			// by releasing a count, so an entry registered with no use ever counted is never evicted
			if hasKind(path, "register") && plus == 0 {
				badReg = "an entry is registered in the cache on a path that never counts a use on it: nothing can release it, it is never queued for eviction and its gauges never return to zero: " + tr.FmtPath(path)
			}
			// an entry handed out for subscribing has its event subscription: found (mqSub != nil) or made on this path
			if ret == "return:ok" && subscribes && !hasKind(path, "subscribe=false") && !hasKind(path, "has-mqsub") && !hasKind(path, "mqSub=") {
				badMq = "a successful return for a subscribing caller on which the entry's event subscription was neither found nor made: an entry first created by a request (no event subscription) is then served to subscribers that never receive its events: " + tr.FmtPath(path)
			}
		}
		if tr.Trunc {
			badOK = "path budget exhausted"
		}
		pos := p.Pos(acqFn.Pos())
		c.check(badOK == "", fnName(acqFn), "one use counted on every successful return", pos, fmt.Sprintf("%d paths", len(tr.Paths)), badOK)
		c.check(badReg == "", fnName(acqFn), "an entry registered in the cache is counted on that path (so that it can be evicted)", pos, "every registering path counts a use", badReg)
		if ei >= 0 {
			c.check(badErr == "", fnName(acqFn), "count released on the error return", pos, "error returns are net 0", badErr)
			c.check(badSub == "", fnName(acqFn), "errors only when subscribe was requested", pos, "every error return passes the true edge of the subscribe parameter (or the function always subscribes)", badSub)
			c.check(badMq == "", fnName(acqFn), "an entry handed out for subscribing has its event subscription", pos, "mqSub != nil tested, or the subscription made and stored, on every successful subscribing return", badMq)
		}
	}

	// (b) callers of an acquirer: the acquired use is released (removeCount(1)) or handed to addSubscriber exactly once
	callers := map[*ssa.Function]bool{}
	for _, f := range p.Repo {
		if _, isAcq := acquirers[TopLevel(f)]; isAcq {
			continue
		}
		for _, call := range callsIn(f) {
			if _, ok := isCallTo(call, acqFuncs...); ok {
				callers[TopLevel(f)] = true
			}
		}
	}
	var names []string
	for f := range callers {
		names = append(names, fnName(f))
	}
	for _, name := range sortedStrings(names) {
		root := p.Fn(name)
		c.inst(1)
		var acq *ssa.Call
		isES := func(t *Tracer, fr *Frame, v ssa.Value) bool {
			r := t.Resolve(fr, v)
			if acq == nil {
				return false
			}
			if r.V == ssa.Value(acq) {
				return true // single-result acquirer
			}
			e, ok := r.V.(*ssa.Extract)
			return ok && e.Tuple == ssa.Value(acq) && e.Index == 0
		}
		sp := &Spec{}
		sp.Classify = func(t *Tracer, fr *Frame, in ssa.Instruction) []Ev {
			if call, ok := isCallTo(in, acqFuncs...); ok {
				if cv, ok := call.(*ssa.Call); ok {
					acq = cv
				}
				return []Ev{{Kind: "acquire", Stop: true}}
			}
			if call, ok := isCallTo(in, removeCount); ok {
				args := callArgs(call.Common())
				if isES(t, fr, args[0]) {
					if k, ok := constInt(args[1]); ok && k == 1 {
						return []Ev{{Kind: "release"}}
					}
					return []Ev{{Kind: "release:bad"}}
				}
			}
			if call, ok := isCallTo(in, addSubscriber); ok {
				if isES(t, fr, callArgs(call.Common())[0]) {
					return []Ev{{Kind: "handover"}}
				}
			}
			return nil
		}
		sp.Branch = func(t *Tracer, fr *Frame, i *ssa.If, dir bool) []Ev {
			if x, nonNil, ok := nilTest(i, dir); ok && nonNil {
				r := t.Resolve(fr, x)
				if e, isE := r.V.(*ssa.Extract); isE && acq != nil && e.Tuple == ssa.Value(acq) && acq.Call.StaticCallee() != nil && e.Index == acquirers[acq.Call.StaticCallee()] {
					return []Ev{{Kind: "acqfail"}}
				}
			}
			return nil
		}
		sp.Inline = inlineIfArg(isES)
		tr := NewTracer(p, sp, root)
		tr.Run()
		bad := ""
		for _, path := range tr.Paths {
			n, acquired, acqfail := 0, false, false
			for _, e := range path {
				switch e.Kind {
				case "acquire":
					acquired = true
				case "acqfail":
					acqfail = true
				case "release", "handover":
					n++
				case "release:bad":
					bad = "removeCount with a count other than the constant 1 @" + p.InstrPos(e.Instr)
				}
			}
			if !acquired {
				continue
			}
			if acqfail && n != 0 {
				bad = "use released although getSubscription failed (it holds none then): " + tr.FmtPath(path)
			}
			if !acqfail && n != 1 {
				bad = fmt.Sprintf("acquired cache use released/handed over %d times (want 1): %s", n, tr.FmtPath(path))
			}
		}
		if tr.Trunc {
			bad = "path budget exhausted"
		}
		c.check(bad == "", name, "cache use from getSubscription released or handed over exactly once", p.Pos(root.Pos()), fmt.Sprintf("%d full paths", len(tr.Paths)), bad)
	}
}

// ---------------------------------------------------------------------------
// PAIR/membership (C09.2): a count is released iff a membership was removed

func rulePairMembership(c *Ctx) {
	p := c.P
	fSubs := p.Field("rescache.ResourceSubscription.subs")
	removeCount := p.Method("rescache.EventSubscription.removeCount")
	if fSubs == nil || removeCount == nil {
		c.undecided("rescache.ResourceSubscription.subs", "anchor", "-", "not found")
		return
	}
	// every function calling removeCount, except the getSubscription/sendRequest pair covered by cache-count
	// (the acquirers of a cache use and the functions that call them)
	covered := map[string]bool{}
	{
		esType := p.Named("rescache.EventSubscription")
		isAcq := func(f *ssa.Function) bool {
			res := f.Signature.Results()
			if f.Parent() != nil || res.Len() == 0 || res.Len() > 4 || esType == nil || f.Object() == nil || f.Object().Exported() {
				return false
			}
			pt, isPtr := res.At(0).Type().(*types.Pointer)
			if !isPtr || !types.Identical(pt.Elem(), esType) || f.Pkg == nil || f.Pkg.Pkg.Name() != "rescache" {
				return false
			}
			if _, isM := f.Object().(*types.Func); !isM || f.Signature.Recv() == nil || !strings.HasSuffix(f.Signature.Recv().Type().String(), "rescache.Cache") {
				return false
			}
			return true
		}
		for _, f := range p.Repo {
			if !isAcq(f) {
				continue
			}
			covered[fnName(f)] = true
			if n := p.CG.Nodes[f]; n != nil {
				for _, e := range n.In {
					if e.Caller.Func != nil && e.Site != nil && e.Site.Common().StaticCallee() == f {
						covered[fnName(TopLevel(e.Caller.Func))] = true
					}
				}
			}
		}
	}
	for _, f := range p.Repo {
		var sites []ssa.CallInstruction
		for _, call := range callsIn(f) {
			if _, ok := isCallTo(call, removeCount); ok {
				sites = append(sites, call)
			}
		}
		if len(sites) == 0 {
			continue
		}
		name := fnName(f)
		if _, own := p.ownedBy(f, func(nm string) bool {
			return covered[nm] || nm == p.FnNameOf("(*rescache.Cache).getSubscription") || nm == p.FnNameOf("(*rescache.Cache).sendRequest")
		}); own && (!p.onReferenceTree(TopLevel(f)) || covered[fnName(TopLevel(f))]) {
			continue // covered by PAIR/cache-count: an acquirer, a caller of one, or a helper extracted from them
		}
		for _, site := range sites {
			c.inst(1)
			arg := callArgs(site.Common())[1]
			pos := p.InstrPos(site)
			if k, ok := constInt(arg); ok {
				// single release: must be tied to a membership actually removed
				what := "count released only when a membership was removed"
				if k != 1 {
					c.viol(name, what, pos, fmt.Sprintf("removeCount(%d)", k))
					continue
				}
				bad := checkSingleRelease(p, f, site, fSubs)
				c.check(bad == "", name, what, pos, "release control-dependent on a successful lookup of the subscriber followed by its delete (or on the explicit nil-subscriber form)", bad)
				continue
			}
			// bulk release: count must be len of the subscriber set that is dropped on the same path
			what := "bulk release equals the number of memberships dropped"
			bad := checkBulkRelease(p, f, site, fSubs)
			c.check(bad == "", name, what, pos, "argument is int64(len(subs)) of the set cleared on the same path", bad)
		}
	}
}

func checkSingleRelease(p *Prog, f *ssa.Function, site ssa.CallInstruction, fSubs *types.Var) string {
	sp := &Spec{}
	sp.Classify = func(t *Tracer, fr *Frame, in ssa.Instruction) []Ev {
		if in == ssa.Instruction(site) {
			return []Ev{{Kind: "release"}}
		}
		if call, ok := in.(*ssa.Call); ok {
			if b, ok := call.Call.Value.(*ssa.Builtin); ok && b.Name() == "delete" {
				if fld, _ := fieldLoad(call.Call.Args[0]); fld == fSubs {
					return []Ev{{Kind: "delete"}}
				}
			}
		}
		return nil
	}
	sp.Branch = func(t *Tracer, fr *Frame, i *ssa.If, dir bool) []Ev {
		// `_, ok := rs.subs[sub]` tested
		v := i.Cond
		neg := false
		if u, ok := v.(*ssa.UnOp); ok && u.Op == token.NOT {
			v, neg = u.X, true
		}
		if e, ok := v.(*ssa.Extract); ok && e.Index == 1 {
			if lk, ok := e.Tuple.(*ssa.Lookup); ok && lk.CommaOk {
				if fld, _ := fieldLoad(lk.X); fld == fSubs {
					if dir != neg {
						return []Ev{{Kind: "member:yes"}}
					}
					return []Ev{{Kind: "member:no"}}
				}
			}
		}
		if x, nonNil, ok := nilTest(i, dir); ok {
			if prm, isP := t.Resolve(fr, x).V.(*ssa.Parameter); isP || isFreeVarCell(x) {
				_ = prm
				if nonNil {
					return []Ev{{Kind: "sub:nonnil"}}
				}
				return []Ev{{Kind: "sub:nil"}}
			}
		}
		return nil
	}
	tr := NewTracer(p, sp, f)
	tr.Run()
	for _, path := range tr.Paths {
		rel, del, yes, no, subnil := 0, 0, false, false, false
		for _, e := range path {
			switch e.Kind {
			case "release":
				rel++
			case "delete":
				del++
			case "member:yes":
				yes = true
			case "member:no":
				no = true
			case "sub:nil":
				subnil = true
			}
		}
		if rel == 0 {
			if yes && del > 0 {
				return "membership removed without releasing its count: " + tr.FmtPath(path)
			}
			continue
		}
		if subnil {
			continue // explicit count-only release
		}
		if no {
			return "count released although the subscriber was not a member (already removed by a delete event or get error): " + tr.FmtPath(path)
		}
		if !(yes && del == 1) {
			return "count released without a membership removal established by a lookup: " + tr.FmtPath(path)
		}
	}
	return ""
}

func isFreeVarCell(v ssa.Value) bool {
	u, ok := v.(*ssa.UnOp)
	if !ok || u.Op != token.MUL {
		return false
	}
	_, ok = u.X.(*ssa.FreeVar)
	return ok
}

// checkBulkRelease: arg = int64(len(X)), X the subscriber set (or a slice
// sized from it) and the field is set to nil on every path to the release.
func checkBulkRelease(p *Prog, f *ssa.Function, site ssa.CallInstruction, fSubs *types.Var) string {
	arg := callArgs(site.Common())[1]
	v := arg
	if cv, ok := v.(*ssa.Convert); ok {
		v = cv.X
	}
	lenOf := func(v ssa.Value) ssa.Value {
		if call, ok := v.(*ssa.Call); ok {
			if b, ok := call.Call.Value.(*ssa.Builtin); ok && b.Name() == "len" {
				return call.Call.Args[0]
			}
		}
		return nil
	}
	x := lenOf(v)
	if x == nil {
		return "count is not of the form int64(len(…))"
	}
	// through a cell
	if u, ok := x.(*ssa.UnOp); ok && u.Op == token.MUL {
		if al, ok := u.X.(*ssa.Alloc); ok {
			var only *ssa.Store
			n := 0
			for _, r := range *al.Referrers() {
				if st, ok := r.(*ssa.Store); ok && st.Addr == ssa.Value(al) {
					only = st
					n++
				}
			}
			if n == 1 {
				x = only.Val
			}
		}
	}
	okSrc := false
	if fld, _ := fieldLoad(x); fld == fSubs {
		okSrc = true
	}
	if ms, ok := x.(*ssa.MakeSlice); ok {
		if y := lenOf(ms.Len); y != nil {
			if fld, _ := fieldLoad(y); fld == fSubs {
				okSrc = true
			}
		}
	}
	// a helper that clones the subscriber set into a slice of the same size
	if call, ok := x.(*ssa.Call); ok && !okSrc {
		if sf := call.Call.StaticCallee(); sf != nil && p.isRepoFn(sf) {
			for _, in := range instrsOf(sf) {
				if r, isR := in.(*ssa.Return); isR && len(r.Results) == 1 {
					rv := r.Results[0]
					if u, isU := rv.(*ssa.UnOp); isU {
						if al, isA := u.X.(*ssa.Alloc); isA {
							for _, rr := range *al.Referrers() {
								if st, isS := rr.(*ssa.Store); isS && st.Addr == ssa.Value(al) {
									rv = st.Val
								}
							}
						}
					}
					if ms, isM := rv.(*ssa.MakeSlice); isM {
						if y := lenOf(ms.Len); y != nil {
							if fld, _ := fieldLoad(y); fld == fSubs {
								okSrc = true
							}
						}
					}
					// a take helper: hands out the set itself
					if fld, _ := fieldLoad(rv); fld == fSubs {
						okSrc = true
					}
				}
			}
		}
	}
	if !okSrc {
		return "count is not the size of the subscriber set"
	}
	// the set is dropped (store nil to rs.subs) before the release on every path
	found := false
	for _, st := range p.stores[fSubs] {
		if st.Parent() == f && isNilConst(st.Val) && dominates(st, site) {
			found = true
		}
	}
	// ... or through a take helper called before the release
	for _, c2 := range callsIn(f) {
		if sf := c2.Common().StaticCallee(); sf != nil && p.takesField(sf, fSubs) && dominates(c2, site) {
			found = true
		}
	}
	if !found {
		return "subscriber set is not cleared before the bulk release"
	}
	return ""
}

// ---------------------------------------------------------------------------
// PAIR/throttle-slot (C19.2)

func rulePairThrottle(c *Ctx) {
	p := c.P
	add := p.Method("rescache.Throttle.Add")
	done := p.Method("rescache.Throttle.Done")
	if add == nil || done == nil {
		c.undecided("rescache.Throttle.Add", "anchor", "-", "not found")
		return
	}
	roots := map[*ssa.Function]bool{}
	strictMemo := map[string]string{}
	for _, f := range p.Repo {
		for _, call := range callsIn(f) {
			if _, ok := isCallTo(call, add); ok {
				roots[TopLevel(f)] = true
			}
		}
	}
	var names []string
	for f := range roots {
		names = append(names, fnName(f))
	}
	for _, name := range sortedStrings(names) {
		root := p.Fn(name)
		c.inst(1)
		what := "governed request frees its slot exactly once, outside any refusable task"
		sp := &Spec{InlineHelpers: true}
		lossy := ""
		sp.Classify = func(t *Tracer, fr *Frame, in ssa.Instruction) []Ev {
			if _, ok := isCallTo(in, add); ok {
				return []Ev{{Kind: "add"}}
			}
			isDone := false
			if _, ok := isCallTo(in, done); ok {
				isDone = true
			} else if cl, ok := in.(ssa.CallInstruction); ok && !cl.Common().IsInvoke() && cl.Common().StaticCallee() == nil {
				// Done handed over as a func value (`send(subj, payload, t.Done)` … `done()`)
				if _, isB := cl.Common().Value.(*ssa.Builtin); !isB {
					if mc, isMC := t.Resolve(fr, cl.Common().Value).V.(*ssa.MakeClosure); isMC {
						if bf := mc.Fn.(*ssa.Function); bf.Synthetic != "" && boundMethod(bf) == done {
							isDone = true
						}
					}
				}
			}
			if isDone {
				k := "done"
				if fr.In(func(x *Frame) bool { return x.MayDrop }) {
					k = "done:in-refusable-task"
				}
				if w := strictHops(t, fr, strictMemo, 0); w != "" && lossy == "" {
					lossy = w
				}
				return []Ev{{Kind: k, Stop: true}}
			}
			return nil
		}
		tr := NewTracer(p, sp, root)
		tr.Run()
		bad := ""
		if lossy != "" {
			bad = "the continuation that frees the slot runs through a combinator that does not always invoke it: " + lossy + " — the slot leaks and the requests waiting behind it are never sent"
		}
		nAdd := 0
		for _, path := range tr.Paths {
			na, nd, refusable, dropped := 0, 0, false, false
			for _, e := range path {
				switch {
				case e.Kind == "add":
					na++
				case e.Kind == "done":
					nd++
				case e.Kind == "done:in-refusable-task":
					nd++
					refusable = true
				case strings.HasPrefix(e.Kind, "drop:"):
					dropped = true
				}
			}
			nAdd += na
			if na != nd {
				why := ""
				if dropped && nd < na {
					why = " (the task holding Done is refused when the connection is disposing: the slot leaks and the throttle stalls)"
				}
				bad = fmt.Sprintf("path takes %d throttle slots and calls Done %d times%s: %s", na, nd, why, tr.FmtPath(path))
			} else if refusable {
				bad = "Done is called inside a task that the connection may refuse: " + tr.FmtPath(path)
			}
		}
		if tr.Trunc {
			bad = "path budget exhausted"
		}
		if nAdd == 0 {
			bad = "no path takes a slot"
		}
		c.check(bad == "", name, what, p.Pos(root.Pos()), fmt.Sprintf("%d full paths; every slot taken is freed exactly once", len(tr.Paths)), bad)
	}
}

// entryRoots lifts a function to the entry points from which it is reached:
// while it is an unexported helper (not stop(fn)) with static callers in the
// repository, its callers take its place.
func (p *Prog) entryRoots(fn *ssa.Function, stop func(*ssa.Function) bool) []*ssa.Function {
	seen := map[*ssa.Function]bool{}
	var out []*ssa.Function
	var rec func(f *ssa.Function, depth int)
	rec = func(f *ssa.Function, depth int) {
		f = TopLevel(f)
		if seen[f] {
			return
		}
		seen[f] = true
		if depth > 4 || stop(f) || f.Object() == nil || f.Object().Exported() {
			out = append(out, f)
			return
		}
		n := p.CG.Nodes[f]
		var callers []*ssa.Function
		if n != nil {
			for _, e := range n.In {
				if e.Caller.Func != nil && e.Site != nil && e.Site.Common().StaticCallee() == f && TopLevel(e.Caller.Func) != f && p.isRepoFn(TopLevel(e.Caller.Func)) {
					callers = append(callers, e.Caller.Func)
				}
			}
		}
		if len(callers) == 0 {
			out = append(out, f)
			return
		}
		for _, cf := range callers {
			rec(cf, depth+1)
		}
	}
	rec(fn, 0)
	return out
}

// strictHops checks, for the frame an event lies in, that every combinator the
// frame chain runs through invokes its continuation on EVERY path — no path
// (not even one taken only for a disposing connection) returns without running
// or handing on the continuation. It returns the first offending hop.
func strictHops(t *Tracer, fr *Frame, memo map[string]string, depth int) string {
	p := t.P
	for x := fr; x != nil && x.Parent != nil; x = x.Parent {
		if x.Via == "" || x.Site == nil {
			continue
		}
		args := callArgs(x.Site.Common())
		idx := -1
		for i, a := range args {
			r := t.Resolve(x.Parent, a)
			if mc, ok := r.V.(*ssa.MakeClosure); ok && x.Clo != nil && mc == x.Clo {
				idx = i
			} else if f, ok := r.V.(*ssa.Function); ok && f == x.Fn && x.Clo == nil {
				idx = i
			}
		}
		if idx < 0 {
			continue
		}
		var bodies []*ssa.Function
		if sf := x.Site.Common().StaticCallee(); sf != nil {
			bodies = append(bodies, sf)
		} else if n := p.CG.Nodes[x.Parent.Fn]; n != nil {
			for _, e := range n.Out {
				if e.Site == x.Site && e.Callee.Func != nil {
					bodies = append(bodies, e.Callee.Func)
				}
			}
		}
		for _, b := range bodies {
			if !p.isRepoFn(b) || len(b.Blocks) == 0 || idx >= len(b.Params) {
				continue
			}
			if why := strictOnce(p, b, idx, memo, depth); why != "" {
				return why
			}
		}
	}
	return ""
}

func strictOnce(p *Prog, fn *ssa.Function, idx int, memo map[string]string, depth int) string {
	key := fmt.Sprintf("%s#%d", fnName(fn), idx)
	if w, ok := memo[key]; ok {
		return w
	}
	memo[key] = ""
	if depth > 4 {
		return ""
	}
	if _, ok := fn.Params[idx].Type().Underlying().(*types.Signature); !ok {
		return ""
	}
	sp := linSpec(p, idx)
	tr := NewTracer(p, sp, fn)
	tr.Run()
	why := ""
	for _, path := range tr.Paths {
		n := 0
		var last *Ev
		for i, e := range path {
			if strings.HasPrefix(e.Kind, "consume") {
				n++
				last = &path[i]
			}
		}
		if n == 0 {
			why = fmt.Sprintf("%s has a path that returns without running or handing on its continuation %s: %s", fnName(fn), fn.Params[idx].Name(), tr.FmtPath(path))
			break
		}
		if last != nil && last.Fr != nil {
			if w := strictHops(tr, last.Fr, memo, depth+1); w != "" {
				why = w
				break
			}
		}
	}
	memo[key] = why
	return why
}

// replyOKBeforeFail: the request was answered with success on a path that had
// met no failure (denied access, load error) up to that answer.
func replyOKBeforeFail(path []Ev) bool {
	for _, e := range path {
		switch e.Kind {
		case "fail", "acqfail":
			return false
		case "reply:ok":
			return true
		}
	}
	return false
}

// decrementsOn: does fn lower the direct / the indirect count of the
// subscription it receives as parameter idx — itself, or in a function it
// hands that very parameter on to (two levels)?
func (p *Prog) decrementsOn(fn *ssa.Function, idx int, depth int) (direct, indirect bool) {
	fDir := p.Field("server.Subscription.direct")
	fInd := p.Field("server.Subscription.indirect")
	if idx >= len(fn.Params) || depth > 2 {
		return
	}
	prm := fn.Params[idx]
	for _, in := range instrsOf(fn) {
		switch x := in.(type) {
		case *ssa.Store:
			fa, ok := x.Addr.(*ssa.FieldAddr)
			if !ok || fa.X != ssa.Value(prm) {
				continue
			}
			if b, isB := x.Val.(*ssa.BinOp); isB && b.Op == token.SUB {
				switch fieldOfAddr(fa) {
				case fDir:
					direct = true
				case fInd:
					indirect = true
				}
			}
		case ssa.CallInstruction:
			sf := x.Common().StaticCallee()
			if sf == nil || !p.isRepoFn(sf) || sf == fn {
				continue
			}
			for ai, a := range callArgs(x.Common()) {
				if a == ssa.Value(prm) {
					d, i := p.decrementsOn(sf, ai, depth+1)
					direct = direct || d
					indirect = indirect || i
				}
			}
		}
	}
	return
}
