package main

import (
	"fmt"
	"go/token"
	"go/types"
	"sort"
	"strings"

	"golang.org/x/tools/go/ssa"
)

// pendingSlots are the fields in which a continuation may be parked until a
// later task runs it. Storing a continuation there counts as consuming it;
// each slot carries a drain obligation (ruleDrain).
var pendingSlots = []string{
	"server.Subscription.accessCallbacks",
	"server.readyCallback.cb",
	"server.Subscription.readyCallbacks",
	"nats.responseCont.f",
	"rescache.Throttle.queue",
	"server.wsConn.queue",
	"rescache.EventSubscription.queue",
	"rescache.EventSubscription.locks",
}

func (p *Prog) slotSet() map[*types.Var]string {
	m := map[*types.Var]string{}
	for _, q := range pendingSlots {
		if f := p.Field(q); f != nil {
			m[f] = q
		}
	}
	if _, completion, _ := natsRoles(p); completion != nil {
		m[completion] = "nats.responseCont.f"
	}
	return m
}

// blocksInLoops returns the blocks of fn that lie on a CFG cycle.
func blocksInLoops(fn *ssa.Function) map[*ssa.BasicBlock]bool {
	out := map[*ssa.BasicBlock]bool{}
	for _, b := range fn.Blocks {
		seen := map[*ssa.BasicBlock]bool{}
		var st []*ssa.BasicBlock
		st = append(st, b.Succs...)
		for len(st) > 0 {
			x := st[len(st)-1]
			st = st[:len(st)-1]
			if seen[x] {
				continue
			}
			seen[x] = true
			if x == b {
				out[b] = true
				break
			}
			st = append(st, x.Succs...)
		}
	}
	return out
}

// storeTarget classifies where a Store writes: a cell (Alloc of the variable
// itself), a field (possibly through the append idiom), or unknown.
// It returns the field when the stored value ends up in a struct field.
func storedIntoField(st *ssa.Store) *types.Var {
	switch a := st.Addr.(type) {
	case *ssa.FieldAddr:
		return fieldOfAddr(a)
	case *ssa.Parameter:
		return containerFieldOfRecv(a)
	case *ssa.IndexAddr:
		// append idiom: t = new [1]T; t[0] = v; s = t[:]; r = append(x, s...); *field = r
		al, ok := a.X.(*ssa.Alloc)
		if !ok {
			return nil
		}
		for _, r := range *al.Referrers() {
			sl, ok := r.(*ssa.Slice)
			if !ok {
				continue
			}
			for _, r2 := range *sl.Referrers() {
				call, ok := r2.(*ssa.Call)
				if !ok {
					continue
				}
				if b, ok := call.Call.Value.(*ssa.Builtin); !ok || b.Name() != "append" {
					continue
				}
				for _, r3 := range *call.Referrers() {
					if s3, ok := r3.(*ssa.Store); ok {
						if prm, ok := s3.Addr.(*ssa.Parameter); ok {
							if f := containerFieldOfRecv(prm); f != nil {
								return f
							}
						}
						if fa, ok := s3.Addr.(*ssa.FieldAddr); ok {
							return fieldOfAddr(fa)
						}
					}
				}
			}
		}
	}
	return nil
}

// linSpec builds the trace spec for "the tracked continuation is consumed
// exactly once". tracked is evaluated lazily on the root frame.
func linSpec(p *Prog, paramIdx int) *Spec {
	slots := p.slotSet()
	loops := map[*ssa.Function]map[*ssa.BasicBlock]bool{}
	inLoop := func(in ssa.Instruction) bool {
		fn := in.Parent()
		if loops[fn] == nil {
			loops[fn] = blocksInLoops(fn)
		}
		return loops[fn][in.Block()]
	}
	isTracked := func(t *Tracer, fr *Frame, v ssa.Value) bool {
		r := t.Resolve(fr, v)
		return r.Fr == t.RootFr && r.V == ssa.Value(t.Root.Params[paramIdx])
	}
	sp := &Spec{}
	sp.Classify = func(t *Tracer, fr *Frame, in ssa.Instruction) []Ev {
		switch x := in.(type) {
		case ssa.CallInstruction:
			com := x.Common()
			var evs []Ev
			if !com.IsInvoke() && com.StaticCallee() == nil {
				if isTracked(t, fr, com.Value) {
					k := "consume:call"
					if inLoop(in) {
						k = "consume-in-loop"
					}
					return []Ev{{Kind: k}}
				}
			}
			callee := calleeFunc(com)
			args := callArgs(com)
			for i, a := range args {
				if !isTracked(t, fr, a) {
					continue
				}
				var tbl map[int]Comb
				if callee != nil {
					tbl = t.combs(callee)
				}
				if cb, ok := tbl[i]; ok {
					switch cb.Mode {
					case ModeOnce:
						k := "consume:delegate"
						if inLoop(in) {
							k = "consume-in-loop"
						}
						evs = append(evs, Ev{Kind: k, Note: calleeName(com)})
					case ModeOnceOrDrop:
						evs = append(evs, Ev{Kind: "consume:delegate", Note: calleeName(com)}, Ev{Kind: "maydrop", Note: calleeName(com)})
					default:
						evs = append(evs, Ev{Kind: "escape", Note: "passed to multi-shot/hook " + calleeName(com)})
					}
					continue
				}
				if f := com.StaticCallee(); f != nil && t.isRepo(f) && len(f.Blocks) > 0 && !t.onStack(fr, f) {
					continue // will be inlined: the callee's body decides
				}
				if b, ok := com.Value.(*ssa.Builtin); ok && b.Name() == "append" {
					continue // the store of the result decides
				}
				evs = append(evs, Ev{Kind: "escape", Note: "passed to " + calleeName(com)})
			}
			return evs
		case *ssa.Store:
			if !isTracked(t, fr, x.Val) {
				return nil
			}
			if _, ok := x.Addr.(*ssa.Alloc); ok {
				return nil // the variable's own cell
			}
			if f := storedIntoField(x); f != nil {
				if q, ok := slots[f]; ok {
					return []Ev{{Kind: "consume:slot", Note: q}}
				}
				if t.StoresIntoPathObject(fr, x) {
					return nil // a parameter object built on this path: the load of the field resolves to the continuation again
				}
				return []Ev{{Kind: "escape", Note: "stored into field " + f.Name()}}
			}
			return []Ev{{Kind: "escape", Note: "stored to " + x.Addr.Name()}}
		case *ssa.Return:
			for _, r := range x.Results {
				if fr == t.RootFr && isTracked(t, fr, r) {
					return []Ev{{Kind: "escape", Note: "returned"}}
				}
			}
		}
		return nil
	}
	disposing := p.Field("server.wsConn.disposing")
	sp.Branch = func(t *Tracer, fr *Frame, i *ssa.If, dir bool) []Ev {
		// a path that continues under "the connection is disposing" is an accepted drop point
		if f, _ := fieldLoad(i.Cond); f != nil && f == disposing && dir {
			return []Ev{{Kind: "drop:disposing"}}
		}
		return nil
	}
	sp.Inline = func(t *Tracer, fr *Frame, c ssa.CallInstruction, fn *ssa.Function) bool {
		for _, a := range callArgs(c.Common()) {
			if isTracked(t, fr, a) {
				return true
			}
		}
		// a local helper closure called directly, or a bound method value
		if fn.Parent() != nil {
			return true
		}
		return false
	}
	sp.EscapeMatters = func(t *Tracer, fr *Frame, mc *ssa.MakeClosure) bool {
		return closureMentions(t, fr, mc, func(fr2 *Frame, v ssa.Value) bool { return isTracked(t, fr2, v) }, 0)
	}
	return sp
}

// closureMentions reports whether the closure (or closures nested in it)
// captures a value/cell for which pred holds.
func closureMentions(t *Tracer, fr *Frame, mc *ssa.MakeClosure, pred func(*Frame, ssa.Value) bool, depth int) bool {
	if depth > 6 {
		return false
	}
	for _, b := range mc.Bindings {
		if pred(fr, b) {
			return true
		}
		// a cell: does its (single) content satisfy pred?
		if a, ok := t.Resolve(fr, b).V.(*ssa.Alloc); ok {
			if st := t.singleStore(a); st != nil && pred(fr, st.Val) {
				return true
			}
		}
	}
	return false
}

type linTarget struct {
	fn    *ssa.Function
	param int
	name  string
	soft  bool // not in the combinator table: analysed, but a visitor-like result is only noted
}

// linTargets enumerates the LIN obligations: every ModeOnce entry of the
// combinator table whose function has a body in the repository, plus every
// repository function with a func-typed parameter that is not classified in
// the table (so that a new handler is analysed rather than skipped).
func linTargets(p *Prog) (targets []linTarget, unclassified []string) {
	seen := map[*ssa.Function]map[int]bool{}
	for _, d := range combTable {
		tf := p.lookupFunc(d.Fn)
		if tf == nil {
			continue
		}
		fn := p.SSA.FuncValue(tf)
		if fn == nil || len(fn.Blocks) == 0 {
			continue
		}
		idx := fixArg(tf, d.Arg)
		if seen[fn] == nil {
			seen[fn] = map[int]bool{}
		}
		seen[fn][idx] = true
		if d.Mode == ModeOnce {
			targets = append(targets, linTarget{fn, idx, d.Fn, false})
		}
	}
	for _, fn := range p.Repo {
		if fn.Parent() != nil || fn.Synthetic != "" {
			continue
		}
		for i, prm := range fn.Params {
			if _, ok := prm.Type().Underlying().(*types.Signature); !ok {
				continue
			}
			if seen[fn][i] {
				continue
			}
			unclassified = append(unclassified, fmt.Sprintf("%s param %s", fnName(fn), prm.Name()))
			// analysed as a linear continuation: must come out exactly-once
			targets = append(targets, linTarget{fn, i, fnName(fn), true})
		}
	}
	return
}

func ruleLIN(filter func(linTarget) bool) func(c *Ctx) {
	return func(c *Ctx) {
		targets, uncl := linTargets(c.P)
		for _, u := range uncl {
			c.note("func-typed parameter not in the combinator table, analysed as linear: %s", u)
		}
		for _, tg := range targets {
			if filter != nil && !filter(tg) {
				continue
			}
			c.inst(1)
			sp := linSpec(c.P, tg.param)
			tr := NewTracer(c.P, sp, tg.fn)
			tr.Run()
			construct := fnName(tg.fn)
			what := "continuation " + tg.fn.Params[tg.param].Name() + " consumed exactly once on every path"
			pos := c.P.Pos(tg.fn.Pos())
			if tr.Trunc {
				c.undecided(construct, what, pos, "path budget exhausted")
				continue
			}
			bad := ""
			nDrop := 0
			for _, path := range tr.Paths {
				n, esc, loop, drop := 0, "", false, false
				for _, e := range path {
					switch {
					case strings.HasPrefix(e.Kind, "consume:"):
						n++
					case e.Kind == "consume-in-loop":
						loop = true
					case e.Kind == "escape":
						esc = e.Note + " @" + c.P.InstrPos(e.Instr)
					case strings.HasPrefix(e.Kind, "drop:"), e.Kind == "maydrop":
						drop = true
					}
				}
				switch {
				case esc != "":
					bad = "continuation escapes: " + esc
				case loop:
					bad = "continuation consumed inside a loop: " + tr.FmtPath(path)
				case n == 1:
				case n == 0 && drop:
					nDrop++ // accepted drop point: the connection refused the task
				case n == 0:
					bad = "path without consumption: " + tr.FmtPath(pathTail(path, c.P))
				default:
					bad = fmt.Sprintf("path with %d consumptions: %s", n, tr.FmtPath(path))
				}
				if bad != "" {
					break
				}
			}
			if len(tr.Paths) == 0 {
				bad = "no normal path found"
			}
			if bad != "" && tg.soft {
				// a new helper taking a function: used as a visitor / multi-shot callback, not as a continuation
				c.note("%s.%s is not in the combinator table and is not linear (%s): treated as a visitor", construct, tg.fn.Params[tg.param].Name(), bad)
				c.ob(Ob{Rule: c.res.Rule, Construct: construct, What: what, Pos: pos, Status: OK, Detail: "not a continuation (visitor-like helper): " + bad, Trivial: true})
			} else if bad != "" {
				c.viol(construct, what, pos, bad)
			} else {
				c.ok(construct, what, pos, fmt.Sprintf("%d full paths, each consumes once (%d end at an accepted connection-refused drop)", len(tr.Paths), nDrop))
			}
		}
	}
}

// pathTail gives context for a path without events: the return it ended at.
func pathTail(path []Ev, p *Prog) []Ev {
	return path
}

// ---------------------------------------------------------------------------
// LIN/reply: rpc.HandleRequest answers every request with an id exactly once.

func ruleReply(c *Ctx) {
	fn := c.P.Fn("rpc.HandleRequest")
	if fn == nil {
		c.undecided("rpc.HandleRequest", "anchor", "-", "function not found")
		return
	}
	reply := c.P.Method("rpc.Requester.Reply")
	sp := &Spec{}
	sp.Classify = func(t *Tracer, fr *Frame, in ssa.Instruction) []Ev {
		switch x := in.(type) {
		case ssa.CallInstruction:
			if f := calleeFunc(x.Common()); f != nil && f == reply {
				return []Ev{{Kind: "reply"}}
			}
		case *ssa.Return:
			if fr == t.RootFr && len(x.Results) == 1 {
				if isNilConst(t.Resolve(fr, x.Results[0]).V) {
					return []Ev{{Kind: "return:nil"}}
				}
				return []Ev{{Kind: "return:err"}}
			}
		}
		return nil
	}
	sp.InlineHelpers = true
	tr := NewTracer(c.P, sp, fn)
	tr.Run()
	c.inst(1)
	pos := c.P.Pos(fn.Pos())
	if tr.Trunc {
		c.undecided("rpc.HandleRequest", "exactly one Reply per dispatched request", pos, "path budget exhausted")
		return
	}
	nReply, nDeleg := 0, 0
	bad := ""
	for _, path := range tr.Paths {
		n := 0
		ret := ""
		for _, e := range path {
			if e.Kind == "reply" {
				n++
				if e.Fr == tr.RootFr {
					nReply++
				} else {
					nDeleg++
				}
			}
			if strings.HasPrefix(e.Kind, "return:") {
				ret = e.Kind
			}
		}
		if ret == "return:err" && n != 0 {
			bad = "undispatchable frame (error return) is answered: " + tr.FmtPath(path)
		}
		if ret == "return:nil" && n != 1 {
			bad = fmt.Sprintf("dispatched request answered %d times: %s", n, tr.FmtPath(path))
		}
	}
	c.check(bad == "", "rpc.HandleRequest", "exactly one Reply per dispatched request", pos,
		fmt.Sprintf("%d paths; replies on dispatcher paths=%d, inside delegated continuations=%d", len(tr.Paths), nReply, nDeleg), bad)

	// who may call Reply: only HandleRequest and its closures
	n := 0
	for _, f := range c.P.Repo {
		for _, call := range callsIn(f) {
			if calleeFunc(call.Common()) == reply {
				n++
				_, owned := c.P.ownedBy(f, func(nm string) bool { return nm == fnName(fn) })
				c.check(owned, fnName(f), "Reply is only called from the dispatcher", c.P.InstrPos(call), "inside rpc.HandleRequest (or a helper only it calls)", "Reply called outside rpc.HandleRequest")
			}
		}
	}
	c.inst(n)
}

// ---------------------------------------------------------------------------
// LIN/drain: a pending slot is only cleared after its content was drained.

func ruleDrain(c *Ctx) { ruleDrainOf()(c) }

// ruleDrainOf restricts the drain rule to the named callback slots (all when none is named).
func ruleDrainOf(only ...string) func(c *Ctx) {
	return func(c *Ctx) { ruleDrainImpl(c, only) }
}

func ruleDrainImpl(c *Ctx, only []string) {
	slots := c.P.slotSet()
	// queues owned by their worker are covered by FIFO (C03); here: callback slots
	callbackSlots := map[string]bool{
		"server.Subscription.accessCallbacks": true,
		"server.Subscription.readyCallbacks":  true,
	}
	if len(only) > 0 {
		callbackSlots = map[string]bool{}
		for _, q := range only {
			callbackSlots[q] = true
		}
	}
	var fields []*types.Var
	for f, q := range slots {
		if callbackSlots[q] {
			fields = append(fields, f)
		}
	}
	sort.Slice(fields, func(i, j int) bool { return slots[fields[i]] < slots[fields[j]] })
	disposeFn := c.P.Fn("(*server.wsConn).dispose")
	for _, f := range fields {
		for _, st := range c.P.stores[f] {
			fn := st.Parent()
			if isAppendOfSame(st, f) {
				continue
			}
			c.inst(1)
			construct := c.P.refOwnerName(fn)
			what := "clears " + slots[f] + " only after draining it"
			pos := c.P.InstrPos(st)
			if drained(c.P, st, f) {
				c.ok(construct, what, pos, "slot content loaded before the clearing store and every element consumed in a loop")
				continue
			}
			// initial (constructor) stores of a composite literal are fine
			if isNilConst(st.Val) && inConstructor(st) {
				c.ok(construct, what, pos, "constructor")
				continue
			}
			// un-drained clear: only acceptable when the connection goes away
			if disposeFn != nil && onlyReachableFrom(c.P, TopLevel(fn), disposeFn) {
				c.ok(construct, what, pos, "un-drained, but only reachable from wsConn.dispose (connection gone)")
				continue
			}
			c.viol(construct, what, pos, "pending continuations are dropped while the connection may still be alive (callers: "+strings.Join(callerNames(c.P, TopLevel(fn)), ", ")+")")
		}
	}
}

func inConstructor(st *ssa.Store) bool {
	fa, ok := st.Addr.(*ssa.FieldAddr)
	if !ok {
		return false
	}
	_, ok = fa.X.(*ssa.Alloc)
	return ok
}

func isAppendOfSame(st *ssa.Store, f *types.Var) bool {
	call, ok := st.Val.(*ssa.Call)
	if !ok {
		return false
	}
	if b, ok := call.Call.Value.(*ssa.Builtin); !ok || b.Name() != "append" {
		return false
	}
	lf, _ := fieldLoad(call.Call.Args[0])
	return lf == f
}

// drained: a load of the same field dominates the clearing store, and the
// loaded slice is ranged over with each element called or handed to a callee.
func drained(p *Prog, st *ssa.Store, f *types.Var) bool {
	fn := st.Parent()
	for _, ld := range p.loads[f] {
		li, ok := ld.(ssa.Instruction)
		if !ok || li.Parent() != fn || !dominates(li, st) {
			continue
		}
		lv := ld.(ssa.Value)
		if consumedInLoop(lv) {
			return true
		}
		// a "take" helper: the loaded content is returned, and every caller drains the result
		if returnsValue(fn, lv) && fn.Parent() == nil {
			n, all := 0, true
			if node := p.CG.Nodes[fn]; node != nil {
				for _, e := range node.In {
					if e.Site == nil || e.Site.Common().StaticCallee() != fn {
						continue
					}
					cv, ok := e.Site.(ssa.Value)
					if !ok {
						all = false
						continue
					}
					n++
					if !consumedInLoop(cv) {
						all = false
					}
				}
			}
			if n > 0 && all {
				return true
			}
		}
	}
	return false
}

// derivedOf: the value itself and re-loads of a local cell it was stored to.
func derivedOf(lv ssa.Value) map[ssa.Value]bool {
	derived := map[ssa.Value]bool{lv: true}
	if lv.Referrers() == nil {
		return derived
	}
	for _, r := range *lv.Referrers() {
		if s2, ok := r.(*ssa.Store); ok && s2.Val == lv {
			if al, ok := s2.Addr.(*ssa.Alloc); ok {
				for _, r2 := range *al.Referrers() {
					if u, ok := r2.(*ssa.UnOp); ok && u.Op == token.MUL {
						derived[u] = true
					}
				}
			}
		}
	}
	return derived
}

func returnsValue(fn *ssa.Function, lv ssa.Value) bool {
	d := derivedOf(lv)
	for _, in := range instrsOf(fn) {
		if r, ok := in.(*ssa.Return); ok {
			for _, x := range r.Results {
				if d[x] {
					return true
				}
			}
		}
	}
	return false
}

// consumedInLoop: the slice value is ranged over with each element called or
// handed to a callee.
func consumedInLoop(lv ssa.Value) bool {
	in, ok := lv.(ssa.Instruction)
	if !ok {
		return false
	}
	loops := blocksInLoops(in.Parent())
	for d := range derivedOf(lv) {
		if d.Referrers() == nil {
			continue
		}
		for _, r := range *d.Referrers() {
			var elem ssa.Value
			switch x := r.(type) {
			case *ssa.IndexAddr:
				for _, r2 := range *x.Referrers() {
					if u, ok := r2.(*ssa.UnOp); ok && u.Op == token.MUL {
						elem = u
					}
				}
			case *ssa.Index:
				elem = x
			}
			if elem == nil || !loops[elem.(ssa.Instruction).Block()] {
				continue
			}
			if elemConsumed(elem) && drainLoopComplete(elem) {
				return true
			}
		}
	}
	return false
}

// drainLoopComplete: the loop that takes elem out of the drained container runs
// to the end of the container on every path — its only exit is the loop
// header's "no more elements" edge (no break, no return from the body) — and
// every iteration reaches a use of the element before it goes round again (no
// `continue` in front of the consumption). A drain that stops early (`if
// s.state == stateDisposed { break }`) drops the continuations still waiting.
func drainLoopComplete(elem ssa.Value) bool {
	eb := elem.(ssa.Instruction).Block()
	fn := eb.Parent()
	reach := func(from *ssa.BasicBlock, fwd bool) map[*ssa.BasicBlock]bool {
		seen := map[*ssa.BasicBlock]bool{}
		st := []*ssa.BasicBlock{from}
		for len(st) > 0 {
			x := st[len(st)-1]
			st = st[:len(st)-1]
			nx := x.Succs
			if !fwd {
				nx = x.Preds
			}
			for _, y := range nx {
				if !seen[y] {
					seen[y] = true
					st = append(st, y)
				}
			}
		}
		return seen
	}
	fw, bw := reach(eb, true), reach(eb, false)
	member := map[*ssa.BasicBlock]bool{}
	for _, b := range fn.Blocks {
		if fw[b] && bw[b] {
			member[b] = true
		}
	}
	if !member[eb] {
		return false
	}
	// innermost loop only: when the element is taken in a nested loop the members above are a superset; accept
	// the smallest cycle through eb — approximated by requiring a unique header (the member entered from outside)
	var header *ssa.BasicBlock
	for b := range member {
		for _, pb := range b.Preds {
			if !member[pb] {
				if header != nil && header != b {
					return false
				}
				header = b
			}
		}
	}
	if header == nil {
		return false
	}
	// 1. the only way out of the loop is the header's exit edge (panics aside)
	for b := range member {
		if b == header {
			continue
		}
		for _, sb := range b.Succs {
			if !member[sb] && !isPanicBlock(sb) {
				return false
			}
		}
		if len(b.Instrs) > 0 {
			if _, isRet := b.Instrs[len(b.Instrs)-1].(*ssa.Return); isRet {
				return false
			}
		}
	}
	// 2. every way back to the header passes a block that uses the element (or a cell it was spilled to)
	uses := map[*ssa.BasicBlock]bool{}
	vals := map[ssa.Value]bool{elem: true}
	for _, r := range *elem.Referrers() {
		if s, ok := r.(*ssa.Store); ok && s.Val == elem {
			if al, ok := s.Addr.(*ssa.Alloc); ok {
				for _, r2 := range *al.Referrers() {
					if u, ok := r2.(*ssa.UnOp); ok && u.Op == token.MUL {
						vals[u] = true
					}
				}
			}
		}
	}
	for v := range vals {
		for _, r := range *v.Referrers() {
			switch x := r.(type) {
			case ssa.CallInstruction:
				uses[x.Block()] = true
			case *ssa.FieldAddr:
				uses[x.Block()] = true
			}
		}
	}
	for _, pb := range header.Preds {
		if !member[pb] {
			continue
		}
		// walk back from the back edge to the element's block without passing a use: such a path skips the element
		seen := map[*ssa.BasicBlock]bool{}
		var skip func(b *ssa.BasicBlock) bool
		skip = func(b *ssa.BasicBlock) bool {
			if uses[b] {
				return false
			}
			if b == eb || b == header {
				return true
			}
			if seen[b] {
				return false
			}
			seen[b] = true
			for _, q := range b.Preds {
				if member[q] && skip(q) {
					return true
				}
			}
			return false
		}
		if skip(pb) {
			return false
		}
	}
	return true
}

func elemConsumed(elem ssa.Value) bool {
	vals := map[ssa.Value]bool{elem: true}
	// through a cell (range variable captured / spilled)
	for _, r := range *elem.Referrers() {
		if s, ok := r.(*ssa.Store); ok && s.Val == elem {
			if al, ok := s.Addr.(*ssa.Alloc); ok {
				for _, r2 := range *al.Referrers() {
					if u, ok := r2.(*ssa.UnOp); ok && u.Op == token.MUL {
						vals[u] = true
					}
				}
			}
		}
	}
	for v := range vals {
		for _, r := range *v.Referrers() {
			if call, ok := r.(ssa.CallInstruction); ok {
				com := call.Common()
				if com.Value == v {
					return true
				}
				for _, a := range com.Args {
					if a == v {
						return true
					}
				}
			}
			// a continuation stored in a field of the element is called (rcb.cb())
			if fa, ok := r.(*ssa.FieldAddr); ok && fa.X == v {
				if _, isSig := fa.Type().(*types.Pointer).Elem().Underlying().(*types.Signature); isSig {
					for _, r2 := range *fa.Referrers() {
						if ld, ok := r2.(*ssa.UnOp); ok {
							for _, r3 := range *ld.Referrers() {
								if call, ok := r3.(ssa.CallInstruction); ok && call.Common().Value == ssa.Value(ld) {
									return true
								}
							}
						}
					}
				}
			}
			// field access on the element (rcb.loading--) followed by a call with it
			if fa, ok := r.(*ssa.FieldAddr); ok && fa.X == v {
				for _, r2 := range *v.Referrers() {
					if call, ok := r2.(ssa.CallInstruction); ok {
						for _, a := range call.Common().Args {
							if a == v {
								return true
							}
						}
					}
				}
			}
		}
	}
	return false
}

// onlyReachableFrom reports whether every call-graph path into fn starts in
// (passes through) root: all callers, transitively, are root or are
// themselves only called from root.
func onlyReachableFrom(p *Prog, fn, root *ssa.Function) bool {
	seen := map[*ssa.Function]bool{}
	var ok func(f *ssa.Function) bool
	ok = func(f *ssa.Function) bool {
		if f == root {
			return true
		}
		if seen[f] {
			return true
		}
		seen[f] = true
		n := p.CG.Nodes[f]
		if n == nil || len(n.In) == 0 {
			return false
		}
		for _, e := range n.In {
			caller := e.Caller.Func
			if caller == nil {
				return false
			}
			if !ok(TopLevelOrSelf(caller)) {
				return false
			}
		}
		return true
	}
	return ok(fn)
}

// TopLevelOrSelf maps a closure to its enclosing declared function: who
// creates a closure is who is responsible for the call.
func TopLevelOrSelf(f *ssa.Function) *ssa.Function { return TopLevel(f) }

func callerNames(p *Prog, fn *ssa.Function) []string {
	set := map[string]bool{}
	if n := p.CG.Nodes[fn]; n != nil {
		for _, e := range n.In {
			if e.Caller.Func != nil {
				set[fnName(TopLevel(e.Caller.Func))] = true
			}
		}
	}
	return sortedKeys(set)
}

// DOM/drain-reentrancy (C03, C07): the continuations kept in a subscription's
// callback slots may re-enter the subscription (a re-access started from an
// access callback, an unqueue from a ready callback). The function that runs
// them therefore finishes its own bookkeeping first: once the first
// continuation of the drain loop may have run, it stores to no field of the
// subscription any more (a late `flags &^= inFlight` would erase what the
// re-entrant call just set, or make it see a request as still in flight).
func ruleDrainReentrancy(c *Ctx) {
	p := c.P
	subT := p.Named("server.Subscription")
	for _, q := range []string{"server.Subscription.accessCallbacks", "server.Subscription.readyCallbacks"} {
		f := p.Field(q)
		if f == nil {
			c.undecided(q, "anchor", "-", "field not found")
			continue
		}
		found := 0
		check := func(fn *ssa.Function, lv ssa.Value) {
			loops := blocksInLoops(fn)
			// the blocks in which an element of the drained content is taken
			var heads []*ssa.BasicBlock
			for d := range derivedOf(lv) {
				if d.Referrers() == nil {
					continue
				}
				for _, r := range *d.Referrers() {
					switch x := r.(type) {
					case *ssa.IndexAddr:
						if loops[x.Block()] {
							heads = append(heads, x.Block())
						}
					case *ssa.Index:
						if loops[x.Block()] {
							heads = append(heads, x.Block())
						}
					}
				}
			}
			if len(heads) == 0 {
				return
			}
			found++
			c.inst(1)
			bad := ""
			reach := map[*ssa.BasicBlock]bool{}
			var walk func(b *ssa.BasicBlock)
			walk = func(b *ssa.BasicBlock) {
				for _, s := range b.Succs {
					if !reach[s] {
						reach[s] = true
						walk(s)
					}
				}
			}
			for _, h := range heads {
				reach[h] = true
				walk(h)
			}
			for _, in := range instrsOf(fn) {
				st, ok := in.(*ssa.Store)
				if !ok || !reach[st.Block()] {
					continue
				}
				fa, ok := st.Addr.(*ssa.FieldAddr)
				if !ok || subT == nil {
					continue
				}
				pt, ok := fa.X.Type().Underlying().(*types.Pointer)
				if !ok || !types.Identical(pt.Elem(), subT) {
					continue
				}
				bad = "store to " + fieldOfAddr(fa).Name() + " @" + p.InstrPos(st) + " can execute after a continuation of the slot has run: the continuation may have re-entered the subscription, and this store overwrites or hides what it did"
			}
			c.check(bad == "", fnName(fn), "bookkeeping of "+q+" finished before its continuations run", p.Pos(fn.Pos()), "no store to a subscription field is reachable from the drain loop", bad)
		}
		for _, ld := range p.loads[f] {
			li, ok := ld.(ssa.Instruction)
			if !ok {
				continue
			}
			lv := ld.(ssa.Value)
			fn := li.Parent()
			if consumedInLoop(lv) {
				check(fn, lv)
				continue
			}
			// take-helper: the callers drain the returned content
			if returnsValue(fn, lv) && fn.Parent() == nil {
				if node := p.CG.Nodes[fn]; node != nil {
					for _, e := range node.In {
						if e.Site == nil || e.Site.Common().StaticCallee() != fn {
							continue
						}
						if cv, ok := e.Site.(ssa.Value); ok && consumedInLoop(cv) {
							check(e.Site.Parent(), cv)
						}
					}
				}
			}
		}
		if found == 0 {
			c.viol(q, "bookkeeping finished before continuations run", "-", "no drain loop found for the slot")
		}
	}
}

// LIN/queue-detach (C01, C03): unqueueEvents takes the queued events off the
// subscription (`eq := s.eventQueue; s.eventQueue = nil`) and then owns them:
// on every path from that point it enters the loop that processes them (which
// re-queues what it does not get to). A return between the detach and the
// loop drops events the client was promised, and because the subscription's
// version is not advanced for them, every later event is discarded too.
func ruleQueueDetach(c *Ctx) {
	p := c.P
	fQ := p.Field("server.Subscription.eventQueue")
	if fQ == nil {
		c.undecided("server.Subscription.eventQueue", "anchor", "-", "field not found")
		return
	}
	n := 0
	for _, st := range p.stores[fQ] {
		if !isNilConst(st.Val) {
			continue
		}
		fn := st.Parent()
		// a detach: the content was loaded into a local before it is cleared
		detached := false
		for _, ld := range p.loads[fQ] {
			if li, ok := ld.(ssa.Instruction); ok && li.Parent() == fn && dominates(li, st) {
				detached = true
			}
		}
		if !detached {
			continue // plain clear (Dispose): nothing is taken over
		}
		// a take-all helper: the obligation is its callers'
		if p.takesField(fn, fQ) {
			if node := p.CG.Nodes[fn]; node != nil {
				for _, e := range node.In {
					if e.Site == nil || e.Site.Common().StaticCallee() != fn {
						continue
					}
					site := e.Site
					root := TopLevel(site.Parent())
					n++
					c.inst(1)
					sp := &Spec{NoHelpers: true}
					sp.Classify = func(t *Tracer, fr *Frame, in ssa.Instruction) []Ev {
						if in == ssa.Instruction(site) {
							return []Ev{{Kind: "detach", Stop: true}}
						}
						if call, ok := isBuiltinCall(in, "len"); ok {
							if r := t.Resolve(fr, call.Call.Args[0]).V; r == site.(ssa.Value) {
								return []Ev{{Kind: "loop"}}
							}
						}
						if _, ok := in.(*ssa.Return); ok && fr == t.RootFr {
							return []Ev{{Kind: "return"}}
						}
						return nil
					}
					tr := runTrace(p, root, sp)
					bad := ""
					for _, path := range tr.Paths {
						d := indexKind(path, "detach")
						if d < 0 {
							continue
						}
						looped := false
						for _, e2 := range path[d:] {
							if e2.Kind == "loop" {
								looped = true
							}
						}
						if !looped {
							bad = "a path returns after taking the queued events off the subscription without entering the loop that processes (or re-queues) them: " + tr.FmtPath(path)
						}
					}
					if tr.Trunc {
						bad = "path budget exhausted"
					}
					c.check(bad == "", fnName(root), "detached event queue is processed or re-queued on every path", p.InstrPos(site), fmt.Sprintf("%d paths (queue taken through %s)", len(tr.Paths), fnName(fn)), bad)
				}
			}
			continue
		}
		n++
		c.inst(1)
		sp := &Spec{NoHelpers: true}
		sp.Classify = func(t *Tracer, fr *Frame, in ssa.Instruction) []Ev {
			if in == ssa.Instruction(st) {
				return []Ev{{Kind: "detach"}}
			}
			if call, ok := isBuiltinCall(in, "len"); ok && fr == t.RootFr {
				if f, _ := fieldLoad(t.Resolve(fr, call.Call.Args[0]).V); f == fQ {
					return []Ev{{Kind: "loop"}}
				}
			}
			if _, ok := in.(*ssa.Return); ok && fr == t.RootFr {
				return []Ev{{Kind: "return"}}
			}
			return nil
		}
		tr := runTrace(p, fn, sp)
		bad := ""
		for _, path := range tr.Paths {
			d := indexKind(path, "detach")
			if d < 0 {
				continue
			}
			looped := false
			for _, e := range path[d:] {
				if e.Kind == "loop" {
					looped = true
				}
			}
			if !looped {
				bad = "a path returns after taking the queued events off the subscription without entering the loop that processes (or re-queues) them: the events are dropped and, the version not being advanced, every later event of the resource is discarded: " + tr.FmtPath(path)
			}
		}
		if tr.Trunc {
			bad = "path budget exhausted"
		}
		c.check(bad == "", fnName(fn), "detached event queue is processed or re-queued on every path", p.InstrPos(st), fmt.Sprintf("%d paths", len(tr.Paths)), bad)
	}
	if n == 0 {
		c.viol("server.Subscription.eventQueue", "detached event queue is processed or re-queued on every path", "-", "no detach site found")
	}
}

// takesField: fn is a small unexported helper that stores nil to field f and
// returns what the field held before (`func (q *queue) takeAll() []T`).
func (p *Prog) takesField(fn *ssa.Function, f *types.Var) bool {
	if fn == nil || fn.Parent() != nil || len(fn.Blocks) == 0 || len(fn.Blocks) > 3 {
		return false
	}
	for _, st := range p.stores[f] {
		if st.Parent() != fn || !isNilConst(st.Val) {
			continue
		}
		for _, ld := range p.loads[f] {
			li, ok := ld.(ssa.Instruction)
			if ok && li.Parent() == fn && dominates(li, st) && returnsValue(fn, ld.(ssa.Value)) {
				return true
			}
		}
	}
	return false
}

// PAIR/ready-count (C07): a ready callback counts the subscriptions it still
// waits for. A subscription holds its own count while it descends into its
// references and gives it back afterwards, immediately before the zero test:
// a decrement placed before the descent lets the count reach zero inside a
// nested descent (an already loaded reference) and again at the trailing
// test — the request is answered twice.
func ruleReadyCount(c *Ctx) {
	p := c.P
	fLoading := p.Field("server.readyCallback.loading")
	onLoaded := p.Method("server.Subscription.onLoaded")
	if fLoading == nil || onLoaded == nil {
		c.undecided("server.readyCallback.loading", "anchor", "-", "not found")
		return
	}
	descends := func(f *ssa.Function) bool {
		for _, call := range callsIn(f) {
			if _, ok := isCallTo(call, onLoaded); ok {
				return true
			}
		}
		return false
	}
	// the functions that lower the count, and — where the decrement lives in a helper — their callers
	roots := map[*ssa.Function]bool{}
	n := 0
	var lift func(f *ssa.Function, depth int)
	lift = func(f *ssa.Function, depth int) {
		f = TopLevel(f)
		if descends(f) {
			roots[f] = true
			return
		}
		if depth >= 2 {
			return
		}
		if nd := p.CG.Nodes[f]; nd != nil {
			for _, e := range nd.In {
				if e.Caller.Func != nil && e.Site != nil && p.isRepoFn(e.Caller.Func) && e.Site.Common().StaticCallee() == f && TopLevel(e.Caller.Func) != f {
					lift(e.Caller.Func, depth+1)
				}
			}
		}
	}
	for _, st := range p.stores[fLoading] {
		b, ok := st.Val.(*ssa.BinOp)
		if !ok || b.Op != token.SUB {
			continue
		}
		n++
		lift(st.Parent(), 0)
	}
	if n == 0 {
		c.viol("server.readyCallback.loading", "the ready count is given back only after the descent", "-", "no decrement found")
		return
	}
	var names []string
	for f := range roots {
		names = append(names, fnName(f))
	}
	if len(names) == 0 {
		c.inst(1)
		c.ok("server.readyCallback.loading", "the ready count is given back only after the descent into the references", "-", "no function that lowers the count descends into references")
		return
	}
	for _, nm := range sortedStrings(names) {
		var fn *ssa.Function
		for f := range roots {
			if fnName(f) == nm {
				fn = f
			}
		}
		c.inst(1)
		sp := &Spec{InlineHelpers: true}
		sp.Classify = func(t *Tracer, fr *Frame, in ssa.Instruction) []Ev {
			if s2, ok := isStoreToT(t, fr, in, fLoading); ok {
				if b2, isB := s2.Val.(*ssa.BinOp); isB && b2.Op == token.SUB {
					return []Ev{{Kind: "dec"}}
				}
			}
			if _, ok := isCallTo(in, onLoaded); ok {
				return []Ev{{Kind: "descend", Stop: true}}
			}
			return nil
		}
		tr := runTrace(p, fn, sp)
		bad := ""
		for _, path := range tr.Paths {
			di := indexKind(path, "dec")
			if di < 0 {
				continue
			}
			for _, e := range path[di:] {
				if e.Kind == "descend" {
					bad = "the subscription gives its count back before it descends into its references: the count can reach zero inside the descent and again at the trailing test (the waiting request is answered twice): " + tr.FmtPath(path)
				}
			}
		}
		if tr.Trunc {
			bad = "path budget exhausted"
		}
		c.check(bad == "", fnName(fn), "the ready count is given back only after the descent into the references", p.Pos(fn.Pos()), fmt.Sprintf("%d paths", len(tr.Paths)), bad)
	}
}
