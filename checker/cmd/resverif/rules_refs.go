package main

import (
	"fmt"
	"go/token"
	"go/types"
	"strings"

	"golang.org/x/tools/go/ssa"
)

// Typestate table of Subscription.state (C02, C01, C11): who may move a
// subscription into which state.
var subStateTable = []stateWrite{
	{"server.NewSubscription", 1, "created loading"},
	{"(*server.Subscription).Loaded", 2, "resource arrived: stateLoaded"},
	{"(*server.Subscription).doneLoading", 3, "nothing (more) to load: stateReady"},
	{"(*server.Subscription).Unsend", 3, "collector: client dropped it, a loading parent still needs it"},
	{"(*server.Subscription).populateResources", 4, "placed in a resource set: stateToSend"},
	{"(*server.Subscription).populateResourcesLegacy", 4, "placed in a resource set: stateToSend"},
	{"(*server.Subscription).ReleaseRPCResources", 5, "frame handed to the socket: stateSent"},
	{"(*server.Subscription).processCollectionEvent", 6, "delete event"},
	{"(*server.Subscription).processModelEvent", 6, "delete event"},
	{"(*server.Subscription).Dispose", 0, "disposed"},
}

// elemKey names "an element of slice/map S" for receivers obtained by
// ranging, so that two loops over the same container agree.
func elemKey(t *Tracer, fr *Frame, v ssa.Value) string {
	r := t.Resolve(fr, v)
	switch x := r.V.(type) {
	case *ssa.UnOp:
		if x.Op == token.MUL {
			if ia, ok := x.X.(*ssa.IndexAddr); ok {
				return "elem:" + t.valKey(r.Fr, ia.X, t.cur)
			}
		}
	case *ssa.Extract:
		if nx, ok := x.Tuple.(*ssa.Next); ok {
			if rg, ok := nx.Iter.(*ssa.Range); ok {
				return "elem:" + t.valKey(r.Fr, rg.X, t.cur)
			}
		}
	}
	if f, base := fieldLoad(r.V); f != nil && f.Name() == "sub" {
		// ref.sub of a map element
		return "refsub:" + elemKey(t, r.Fr, base)
	}
	return t.valKey(r.Fr, r.V, t.cur)
}

// PAIR/rpc-resources (C02.1): populate -> send -> release
func ruleRPCResources(c *Ctx) {
	p := c.P
	getRPC := p.Method("server.Subscription.GetRPCResources")
	pop := p.Method("server.Subscription.populateResources")
	popL := p.Method("server.Subscription.populateResourcesLegacy")
	rel := p.Method("server.Subscription.ReleaseRPCResources")
	send := []*types.Func{p.Method("server.ConnSubscriber.Send"), p.Method("server.wsConn.Send")}
	unsubFns := []*types.Func{p.Method("server.ConnSubscriber.Unsubscribe"), p.Method("server.wsConn.Unsubscribe")}
	if getRPC == nil || pop == nil || rel == nil {
		c.undecided("server.Subscription.GetRPCResources", "anchor", "-", "not found")
		return
	}
	internal := map[string]bool{"(*server.Subscription).GetRPCResources": true, "(*server.Subscription).populateResources": true, "(*server.Subscription).populateResourcesLegacy": true, "(*server.Subscription).ReleaseRPCResources": true}
	roots := map[*ssa.Function]bool{}
	for _, f := range p.Repo {
		if internal[fnName(TopLevel(f))] {
			continue
		}
		for _, call := range callsIn(f) {
			if _, ok := isCallTo(call, getRPC, pop, popL, rel); ok {
				roots[f] = true
			}
		}
	}
	var names []string
	rootTops := map[*ssa.Function]bool{}
	for f := range roots {
		names = append(names, fnName(f))
		rootTops[TopLevel(f)] = true
	}
	for _, name := range sortedStrings(names) {
		root := p.Fn(name)
		c.inst(1)
		sp := &Spec{}
		sp.Classify = func(t *Tracer, fr *Frame, in ssa.Instruction) []Ev {
			// a function that populates on its own is a root of its own: every root is decided separately
			if call, ok := in.(ssa.CallInstruction); ok {
				if sf := call.Common().StaticCallee(); sf != nil && sf.Parent() == nil && rootTops[sf] && (sf != TopLevel(t.Root) || t.Root.Parent() != nil) {
					return []Ev{{Kind: "nested-root", Stop: true}}
				}
			}
			if call, ok := isCallTo(in, getRPC, pop, popL); ok {
				return []Ev{{Kind: "populate", Note: elemKey(t, fr, callArgs(call.Common())[0]), Stop: true}}
			}
			if call, ok := isCallTo(in, rel); ok {
				return []Ev{{Kind: "release", Note: elemKey(t, fr, callArgs(call.Common())[0]), Stop: true}}
			}
			if call, ok := isCallTo(in, unsubFns...); ok {
				return []Ev{{Kind: "unsub", Note: elemKey(t, fr, callArgs(call.Common())[1]), Stop: true}}
			}
			if _, ok := isCallTo(in, send...); ok {
				return []Ev{{Kind: "send", Stop: true}}
			}
			if call, ok := in.(ssa.CallInstruction); ok && !call.Common().IsInvoke() && call.Common().StaticCallee() == nil {
				if _, isB := call.Common().Value.(*ssa.Builtin); !isB {
					return []Ev{{Kind: "send", Note: "continuation"}}
				}
			}
			return nil
		}
		tr := runTrace(p, root, sp)
		bad := ""
		for _, path := range tr.Paths {
			for i, e := range path {
				if e.Kind == "release" {
					// a release is the acknowledgement of a hand-over: something was handed over before it
					handed := false
					for _, e2 := range path[:i] {
						if e2.Kind == "send" {
							handed = true
						}
					}
					if !handed {
						bad = "resources are released (marked sent, queued events let through) before the response that carries them is handed over: the receiver renders a graph that has already moved on: " + tr.FmtPath(path)
					}
				}
				if e.Kind != "populate" {
					continue
				}
				ri := -1
				for j := i + 1; j < len(path); j++ {
					if path[j].Kind == "release" && path[j].Note == e.Note {
						ri = j
						break
					}
				}
				if ri < 0 {
					bad = "resources placed in a resource set are never released (they stay stateToSend: later hand-outs omit them and their events stay queued): " + tr.FmtPath(path)
					break
				}
				si := -1
				for j := i + 1; j < ri; j++ {
					if path[j].Kind == "send" {
						si = j
					}
					if path[j].Kind == "unsub" && path[j].Note == e.Note {
						bad = "the subscription is unsubscribed (and possibly disposed) while its resources are still marked to-send: the release after it is a no-op on a disposed subscription and shared children stay 'to send' without ever reaching the client: " + tr.FmtPath(path)
					}
				}
				if si < 0 {
					bad = "resources are marked sent before the frame carrying them is handed over: " + tr.FmtPath(path)
				}
			}
		}
		if tr.Trunc {
			bad = "path budget exhausted"
		}
		c.check(bad == "", name, "populate, hand the frame over, then release, on every path", p.Pos(root.Pos()), fmt.Sprintf("%d paths", len(tr.Paths)), bad)
	}
}

// DOM/release-recursive, DOM/populate-shape (C02.2, C02.5)
func ruleRefShapes(c *Ctx) {
	p := c.P
	fState := p.Field("server.Subscription.state")
	fISent := p.Field("server.Subscription.indirectsent")
	fRefs := p.Field("server.Subscription.refs")
	rel := p.Method("server.Subscription.ReleaseRPCResources")
	unq := p.Method("server.Subscription.unqueueEvents")
	// ReleaseRPCResources
	if fn := p.Fn("(*server.Subscription).ReleaseRPCResources"); fn != nil {
		c.inst(1)
		sp := &Spec{}
		sp.Classify = func(t *Tracer, fr *Frame, in ssa.Instruction) []Ev {
			if st, ok := isStoreToT(t, fr, in, fState); ok {
				if k, ok := constInt(st.Val); ok {
					return []Ev{{Kind: fmt.Sprintf("state=%d", k)}}
				}
			}
			if _, ok := isCallTo(in, rel); ok {
				return []Ev{{Kind: "recurse", Stop: true}}
			}
			// the recursion handed to an iterator as a method value (`s.eachRef((*Subscription).ReleaseRPCResources)`):
			// the call of the iterator's function parameter is the call of what it was handed on this path
			if m := dynCallee(t, fr, in); m != nil && m == rel {
				return []Ev{{Kind: "recurse", Stop: true}}
			}
			if call, ok := isCallTo(in, unq); ok {
				if k, ok := constInt(callArgs(call.Common())[1]); ok {
					return []Ev{{Kind: fmt.Sprintf("unqueue(%d)", k), Stop: true}}
				}
			}
			if r, ok := in.(*ssa.Range); ok {
				if f, _ := fieldLoad(r.X); f == fRefs {
					return []Ev{{Kind: "range-refs"}}
				}
			}
			return nil
		}
		sp.Branch = func(t *Tracer, fr *Frame, i *ssa.If, dir bool) []Ev {
			if e, ok := i.Cond.(*ssa.Extract); ok && e.Index == 0 {
				if _, ok := e.Tuple.(*ssa.Next); ok && dir {
					return []Ev{{Kind: "iter"}}
				}
			}
			return nil
		}
		tr := runTrace(p, fn, sp)
		bad := ""
		for _, path := range tr.Paths {
			si := indexKind(path, "state=5")
			if si < 0 {
				if hasKind(path, "recurse") || hasKind(path, "unqueue(1)") {
					bad = "early-exit path still descends or opens the gate: " + tr.FmtPath(path)
				}
				continue
			}
			if countKind(path, "iter") != countKind(path, "recurse") || !hasKind(path, "range-refs") {
				bad = "not every reference is released recursively: " + tr.FmtPath(path)
			}
			if ri := indexKind(path, "recurse"); ri >= 0 && ri < si {
				bad = "descent before the own state is stateSent (unbounded recursion on cyclic graphs): " + tr.FmtPath(path)
			}
			ui := indexKind(path, "unqueue(1)")
			if ui < si || countKind(path, "unqueue(1)") != 1 {
				bad = "loading gate not opened exactly once after the resource is marked sent (queued events would never be delivered): " + tr.FmtPath(path)
			}
		}
		c.check(bad == "", fnName(fn), "marks sent, releases every reference recursively, then opens the loading gate", p.Pos(fn.Pos()), fmt.Sprintf("%d paths", len(tr.Paths)), bad)
	}
	// populateResources / Legacy
	for _, nm := range []string{"(*server.Subscription).populateResources", "(*server.Subscription).populateResourcesLegacy"} {
		fn := p.Fn(nm)
		if fn == nil {
			c.undecided(nm, "anchor", "-", "not found")
			continue
		}
		c.inst(1)
		self := p.Method("server.Subscription." + fn.Name())
		sp := &Spec{}
		sp.Classify = func(t *Tracer, fr *Frame, in ssa.Instruction) []Ev {
			if _, ok := isStoreToT(t, fr, in, fISent); ok {
				return []Ev{{Kind: "indirectsent++"}}
			}
			if st, ok := isStoreToT(t, fr, in, fState); ok {
				if k, ok := constInt(st.Val); ok {
					return []Ev{{Kind: fmt.Sprintf("state=%d", k)}}
				}
			}
			selfCall := false
			var call ssa.CallInstruction
			if cl, ok := isCallTo(in, self); ok {
				selfCall, call = true, cl
			} else if cl, ok := in.(ssa.CallInstruction); ok {
				if sf := cl.Common().StaticCallee(); sf != nil && t.onStack(fr, sf) && len(callArgs(cl.Common())) > 2 {
					selfCall, call = true, cl // the recursive descent lives in a merged helper
				}
			}
			if selfCall {
				// the `indirect` argument: the bool parameter of the callee, wherever it stands
				args := callArgs(call.Common())
				bi := 2
				if sf := call.Common().StaticCallee(); sf != nil {
					var bools []int
					named := -1
					for k, prm := range sf.Params {
						if bt, isB := prm.Type().Underlying().(*types.Basic); isB && bt.Kind() == types.Bool && k < len(args) {
							bools = append(bools, k)
							if strings.Contains(strings.ToLower(prm.Name()), "indirect") {
								named = k
							}
						}
					}
					switch {
					case named >= 0:
						bi = named
					case len(bools) == 1:
						bi = bools[0]
					}
				}
				b, isC := constBool(args[bi])
				if isC && b {
					return []Ev{{Kind: "recurse", Stop: true}}
				}
				return []Ev{{Kind: "recurse:not-indirect", Stop: true}}
			}
			if _, ok := in.(*ssa.MapUpdate); ok {
				return []Ev{{Kind: "insert"}}
			}
			return nil
		}
		sp.Branch = func(t *Tracer, fr *Frame, i *ssa.If, dir bool) []Ev {
			if prm, ok := i.Cond.(*ssa.Parameter); ok && prm.Name() == "indirect" {
				if dir {
					return []Ev{{Kind: "indirect"}}
				}
				return []Ev{{Kind: "direct"}}
			}
			if x, op, k, ok := cmpConst(i.Cond); ok && (op == token.EQL || op == token.NEQ) {
				if f, _ := fieldLoad(x); f == fState && (k == 4 || k == 5) && (op == token.EQL) == dir {
					return []Ev{{Kind: "already"}}
				}
			}
			if e, ok := i.Cond.(*ssa.Extract); ok && e.Index == 0 {
				if _, ok := e.Tuple.(*ssa.Next); ok && dir {
					return []Ev{{Kind: "iter"}}
				}
			}
			return nil
		}
		tr := runTrace(p, fn, sp)
		bad := ""
		for _, path := range tr.Paths {
			if hasKind(path, "indirect") != (countKind(path, "indirectsent++") == 1) || countKind(path, "indirectsent++") > 1 {
				bad = "indirectsent is bumped exactly once iff the resource is reached through a reference: " + tr.FmtPath(path)
			}
			if hasKind(path, "already") && (hasKind(path, "insert") || hasKind(path, "recurse") || hasKind(path, "state=4")) {
				bad = "a resource that is already sent / already in the set is inserted or descended again: " + tr.FmtPath(path)
			}
			if hasKind(path, "recurse:not-indirect") {
				bad = "children are populated as if directly subscribed: " + tr.FmtPath(path)
			}
			if ri := indexKind(path, "recurse"); ri >= 0 {
				si := indexKind(path, "state=4")
				if si < 0 || si > ri {
					bad = "descent before the own state is stateToSend (unbounded recursion on cyclic graphs): " + tr.FmtPath(path)
				}
			}
			if countKind(path, "iter") != countKind(path, "recurse")+countKind(path, "recurse:not-indirect") {
				bad = "not every reference is populated: " + tr.FmtPath(path)
			}
		}
		c.check(bad == "", nm, "counts the edge, skips sent resources, marks ToSend before descending into every reference", p.Pos(fn.Pos()), fmt.Sprintf("%d paths", len(tr.Paths)), bad)
	}
	// removeCount arithmetic
	if fn := p.Fn("(*server.wsConn).removeCount"); fn != nil {
		c.inst(1)
		fInd := p.Field("server.Subscription.indirect")
		fDir := p.Field("server.Subscription.direct")
		tryDel := p.Method("server.wsConn.tryDelete")
		sp := &Spec{}
		isSubCount := func(t *Tracer, fr *Frame, st *ssa.Store, own *types.Var) bool {
			b, ok := st.Val.(*ssa.BinOp)
			if !ok || b.Op != token.SUB {
				return false
			}
			// the count parameter, or — where the release is clamped to what is held — the counter itself
			y := t.Resolve(fr, b.Y).V
			if prm, ok := y.(*ssa.Parameter); ok {
				if bt, isB := prm.Type().Underlying().(*types.Basic); isB && bt.Info()&types.IsInteger != 0 {
					return true
				}
			}
			// the count kept in a parameter object (rel.count)
			if nm, ty := rootParamRole(t, fr, b.Y); nm != "" {
				if bt, isB := ty.Underlying().(*types.Basic); isB && bt.Info()&types.IsInteger != 0 {
					return true
				}
			}
			if f, _ := fieldLoad(y); f != nil && f == own {
				return true
			}
			return false
		}
		sp.Classify = func(t *Tracer, fr *Frame, in ssa.Instruction) []Ev {
			for _, fk := range []struct {
				f *types.Var
				k string
			}{{fInd, "indirect-=count"}, {fISent, "indirectsent-=count"}, {fDir, "direct-=count"}} {
				if st, ok := isStoreToT(t, fr, in, fk.f); ok {
					if isSubCount(t, fr, st, fk.f) {
						return []Ev{{Kind: fk.k}}
					}
					return []Ev{{Kind: "store?"}}
				}
			}
			if _, ok := isCallTo(in, tryDel); ok {
				return []Ev{{Kind: "tryDelete", Stop: true}}
			}
			return nil
		}
		sp.Branch = func(t *Tracer, fr *Frame, i *ssa.If, dir bool) []Ev {
			if prm, ok := i.Cond.(*ssa.Parameter); ok {
				return []Ev{{Kind: fmt.Sprintf("%s=%v", prm.Name(), dir)}}
			}
			if nm, ty := rootParamRole(t, fr, i.Cond); nm != "" {
				if bt, isB := ty.Underlying().(*types.Basic); isB && bt.Kind() == types.Bool {
					return []Ev{{Kind: fmt.Sprintf("%s=%v", nm, dir)}}
				}
			}
			if b, ok := i.Cond.(*ssa.BinOp); ok && b.Op == token.EQL {
				if k, isC := constInt(b.Y); isC && k == 0 && dir {
					return []Ev{{Kind: "all-zero"}}
				}
			}
			return nil
		}
		tr := runTrace(p, fn, sp)
		bad := ""
		for _, path := range tr.Paths {
			if hasKind(path, "all-zero") {
				continue
			}
			if hasKind(path, "store?") {
				bad = "unrecognised counter update: " + tr.FmtPath(path)
			}
			d := hasKind(path, "direct=true")
			if d != hasKind(path, "direct-=count") || (!d) != hasKind(path, "indirect-=count") {
				bad = "direct/indirect counter does not follow the direct flag: " + tr.FmtPath(path)
			}
			if (!d && hasKind(path, "sent=true")) != hasKind(path, "indirectsent-=count") {
				bad = "indirectsent is reduced exactly when an indirect edge of a sent parent is removed: " + tr.FmtPath(path)
			}
			if hasKind(path, "tryDelete=true") != hasKind(path, "tryDelete") {
				bad = "collector runs exactly when tryDelete is requested: " + tr.FmtPath(path)
			}
		}
		c.check(bad == "", fnName(fn), "counter effects follow the direct / sent / tryDelete arguments", p.Pos(fn.Pos()), fmt.Sprintf("%d paths", len(tr.Paths)), bad)
	}
	// tryDelete: Dispose paired with removal from the connection's table
	if fn := p.Fn("(*server.wsConn).tryDelete"); fn != nil {
		c.inst(1)
		fSubs := p.Field("server.wsConn.subs")
		disp := p.Method("server.Subscription.Dispose")
		unsend := p.Method("server.Subscription.Unsend")
		sp := &Spec{EdgeLimit: 1}
		sp.Classify = func(t *Tracer, fr *Frame, in ssa.Instruction) []Ev {
			if _, ok := isCallTo(in, disp); ok {
				return []Ev{{Kind: "Dispose", Stop: true}}
			}
			if _, ok := isCallTo(in, unsend); ok {
				return []Ev{{Kind: "Unsend", Stop: true}}
			}
			if call, ok := isBuiltinCall(in, "delete"); ok {
				if f, _ := fieldLoad(call.Call.Args[0]); f == fSubs {
					return []Ev{{Kind: "delete(subs)"}}
				}
			}
			return nil
		}
		tr := runTrace(p, fn, sp)
		bad := ""
		for _, path := range tr.Paths {
			if countKind(path, "Dispose") != countKind(path, "delete(subs)") {
				bad = "a collected subscription is disposed without being removed from the connection's table (or vice versa): " + tr.FmtPath(path)
			}
		}
		if tr.Trunc {
			bad = ""
		}
		c.check(bad == "", fnName(fn), "every disposed subscription leaves the connection's table", p.Pos(fn.Pos()), fmt.Sprintf("%d paths", len(tr.Paths)), bad)
	}
}

// PROV/sent-flag (C02.2, F6): the sent argument of an indirect Unsubscribe is
// the parent's sent-ness as it was while the edge was counted.
func ruleSentFlag(c *Ctx) {
	p := c.P
	fState := p.Field("server.Subscription.state")
	unsub := []*types.Func{p.Method("server.ConnSubscriber.Unsubscribe"), p.Method("server.wsConn.Unsubscribe")}
	isSent := p.Method("server.Subscription.IsSent")
	procEvent := p.Method("server.Subscription.processEvent")
	deleted := p.ConstInt("server.stateDeleted", 6)
	// assumption made checkable: the cache's delete handler clears the subscriber set before the fan-out,
	// so no event follows a delete event at a subscription
	deleteIsLast := false
	if hd := p.Fn("(*rescache.ResourceSubscription).handleEventDelete"); hd != nil {
		fSubs := p.Field("rescache.ResourceSubscription.subs")
		for _, g := range p.withHelpers(hd) {
			for _, in := range instrsOf(g) {
				if st, ok := isStoreTo(in, fSubs); ok && isNilConst(st.Val) {
					deleteIsLast = true
				}
			}
		}
	}
	c.note("PROV/sent-flag: delete is the last event of a subscription (handleEventDelete clears the subscriber set): %v", deleteIsLast)
	// roots: top-level functions from which an indirect Unsubscribe with a computed `sent` is reached by inlining
	cand := map[*ssa.Function]bool{}
	for _, f := range p.Repo {
		for _, call := range callsIn(f) {
			if _, ok := isCallTo(call, unsub...); ok {
				args := callArgs(call.Common())
				if b, isC := constBool(args[2]); isC && !b {
					cand[TopLevel(f)] = true
				}
			}
		}
	}
	// include callers of candidates within package server (Dispose -> unsubscribeRefs)
	roots := map[*ssa.Function]bool{}
	for f := range cand {
		roots[f] = true
		if n := p.CG.Nodes[f]; n != nil {
			for _, e := range n.In {
				if e.Caller.Func != nil && e.Caller.Func.Pkg != nil && e.Caller.Func.Pkg.Pkg.Name() == "server" {
					roots[TopLevel(e.Caller.Func)] = true
				}
			}
		}
	}
	var names []string
	for f := range roots {
		names = append(names, fnName(f))
	}
	for _, name := range sortedStrings(names) {
		root := p.Fn(name)
		sp := &Spec{}
		sp.Classify = func(t *Tracer, fr *Frame, in ssa.Instruction) []Ev {
			if st, ok := isStoreToT(t, fr, in, fState); ok {
				kind := "state="
				if k, isC := constInt(st.Val); isC && k == deleted {
					kind = "state=deleted"
				}
				return []Ev{{Kind: kind, Note: t.valKey(fr, st.Addr.(*ssa.FieldAddr).X, t.cur)}}
			}
			if _, ok := isCallTo(in, procEvent); ok {
				return []Ev{{Kind: "next-event"}}
			}
			if call, ok := isCallTo(in, isSent); ok {
				return []Ev{{Kind: "read-sent", Note: t.valKey(fr, callArgs(call.Common())[0], t.cur), Stop: true}}
			}
			if call, ok := isCallTo(in, unsub...); ok {
				args := callArgs(call.Common())
				if b, isC := constBool(args[2]); isC && !b {
					sent := t.Resolve(fr, args[3])
					if cb, isC := constBool(sent.V); isC {
						return []Ev{{Kind: fmt.Sprintf("unsub:const-%v", cb), Stop: true}}
					}
					if sc, isCall := sent.V.(*ssa.Call); isCall && calleeFunc(&sc.Call) == isSent {
						return []Ev{{Kind: "unsub:issent", Note: t.valKey(sent.Fr, callArgs(&sc.Call)[0], t.cur), Stop: true}}
					}
					if prm, isP := sent.V.(*ssa.Parameter); isP && prm.Parent() == t.Root && sent.Fr == t.RootFr {
						// the releasing loop became a helper that is told the sent-ness: its callers decide
						return []Ev{{Kind: "unsub:param", Stop: true}}
					}
					return []Ev{{Kind: "unsub:other", Stop: true}}
				}
			}
			return nil
		}
		sp.Inline = func(t *Tracer, fr *Frame, cl ssa.CallInstruction, f *ssa.Function) bool {
			return cand[f] || f.Parent() != nil
		}
		tr := runTrace(p, root, sp)
		has := false
		bad := ""
		for _, path := range tr.Paths {
			for i, e := range path {
				if !strings.HasPrefix(e.Kind, "unsub:") {
					continue
				}
				has = true
				switch e.Kind {
				case "unsub:issent":
					// find the read, then any state store to the same receiver before it
					ri := -1
					for j := i - 1; j >= 0; j-- {
						if path[j].Kind == "read-sent" && path[j].Note == e.Note {
							ri = j
							break
						}
					}
					for j := 0; j < ri; j++ {
						if path[j].Kind == "state=deleted" && path[j].Note == e.Note && deleteIsLast {
							// the delete event is the last event a subscription receives (the cache drops
							// its subscribers before fanning it out): a later event is not a feasible path
							later := false
							for _, e3 := range path[j:ri] {
								if e3.Kind == "next-event" {
									later = true
								}
							}
							if later {
								continue
							}
						}
						if strings.HasPrefix(path[j].Kind, "state=") && path[j].Note == e.Note {
							bad = "the parent's state is overwritten before its sent-ness is read for releasing its references: children of a sent parent are released as 'not sent' and keep a too high indirectsent (a later resource set omits them): " + tr.FmtPath(path[:i+1])
						}
					}
				case "unsub:const-false":
					if fnName(TopLevel(e.Instr.Parent())) != "(*server.Subscription).subscribeRef" && name != "(*server.Subscription).subscribeRef" {
						bad = "reference released as 'not sent' unconditionally: " + tr.FmtPath(path[:i+1])
					}
				case "unsub:const-true", "unsub:other":
					bad = "sent argument is not the parent's IsSent(): " + tr.FmtPath(path[:i+1])
				}
			}
		}
		if !has {
			continue
		}
		c.inst(1)
		c.check(bad == "", name, "references released with the parent's sent-ness as it was while the edge was counted", p.Pos(root.Pos()), fmt.Sprintf("%d paths", len(tr.Paths)), bad)
	}
}

// PAIR/edge-sent-once (C02.2, F8): outside populateResources*, indirectsent
// may only be raised for an edge that was created by this very step.
func ruleEdgeSentOnce(c *Ctx) {
	p := c.P
	fISent := p.Field("server.Subscription.indirectsent")
	addRef := p.Method("server.Subscription.addReference")
	getRPC := p.Method("server.Subscription.GetRPCResources")
	pop := p.Method("server.Subscription.populateResources")
	popL := p.Method("server.Subscription.populateResourcesLegacy")
	if fISent == nil || addRef == nil {
		c.undecided("server.Subscription.indirectsent", "anchor", "-", "not found")
		return
	}
	createdGuard := func(i *ssa.If) (bool, bool) {
		// a bool result of addReference tested
		v := i.Cond
		neg := false
		if u, ok := v.(*ssa.UnOp); ok && u.Op == token.NOT {
			v, neg = u.X, true
		}
		if e, ok := v.(*ssa.Extract); ok {
			if call, ok := e.Tuple.(*ssa.Call); ok && calleeFunc(&call.Call) == addRef {
				if b, ok := e.Type().Underlying().(*types.Basic); ok && b.Kind() == types.Bool {
					return !neg, true
				}
			}
		}
		// through a cell / phi: accept loads of a bool cell stored from such an extract
		if u, ok := v.(*ssa.UnOp); ok && u.Op == token.MUL {
			if al, ok := u.X.(*ssa.Alloc); ok {
				for _, r := range *al.Referrers() {
					if st, ok := r.(*ssa.Store); ok {
						if e, ok := st.Val.(*ssa.Extract); ok {
							if call, ok := e.Tuple.(*ssa.Call); ok && calleeFunc(&call.Call) == addRef {
								return !neg, true
							}
						}
					}
				}
			}
		}
		return false, false
	}
	handlers := map[string]bool{"(*server.Subscription).processCollectionEvent": true, "(*server.Subscription).processModelEvent": true}
	for _, fn := range p.Repo {
		top, ok := p.ownedBy(fn, func(nm string) bool { return handlers[nm] })
		if !ok {
			continue
		}
		allInstrs(fn, func(in ssa.Instruction) {
			kind := ""
			if st, ok := isStoreTo(in, fISent); ok {
				if b, ok := st.Val.(*ssa.BinOp); ok && b.Op == token.ADD {
					kind = "indirectsent++"
				}
			}
			if call, ok := isCallTo(in, getRPC, pop, popL); ok {
				args := callArgs(call.Common())
				if b, isC := constBool(args[len(args)-1]); isC && b {
					kind = "populate(indirect)"
				}
			}
			if kind == "" {
				return
			}
			c.inst(1)
			g := p.guardedBy(in, createdGuard)
			c.check(g != nil, top, "sent-count raised only for a reference edge created by this event ("+kind+")", p.InstrPos(in),
				"dominated by the 'edge created' result of addReference", "indirectsent is raised once per changed property / added element, while indirect counts one per distinct parent→child edge: after the properties are cleared the child keeps a surplus and a later resource set omits it")
		})
	}
}

// PAIR/snapshot-current (C01.6, C02.4, F13)
func ruleSnapshotCurrent(c *Ctx) {
	p := c.P
	fState := p.Field("server.Subscription.state")
	getModel := p.Method("rescache.ResourceSubscription.GetModel")
	getColl := p.Method("rescache.ResourceSubscription.GetCollection")
	queue := p.Method("server.Subscription.queueEvents")
	for _, st := range p.stores[fState] {
		k, ok := constInt(st.Val)
		if !ok || k != 3 {
			continue
		}
		fn := st.Parent()
		if fnName(fn) == "(*server.Subscription).doneLoading" {
			continue // first time ready: snapshot was just taken
		}
		c.inst(1)
		hasRefresh, hasGate := false, false
		for _, call := range callsIn(fn) {
			if _, ok := isCallTo(call, getModel, getColl); ok {
				hasRefresh = true
			}
			if _, ok := isCallTo(call, queue); ok {
				hasGate = true
			}
		}
		c.check(hasRefresh && hasGate, fnName(fn), "a sent resource made sendable again refreshes its snapshot and closes its event gate", p.InstrPos(st),
			"snapshot re-read and gate closed on the same path", "the subscription is put back to stateReady with the load-time snapshot (events advanced its version but never the snapshot) and with its event gate open: events keep flowing for a resource the client dropped, and a later hand-out delivers stale content that nothing corrects")
	}
}

// PAIR/sent-with-frame (C02): an edge to an already sent resource is counted
// as sent (indirectsent++) at the moment the frame that shows the edge to the
// client is handed over — not earlier. Between the count and the Send there
// is no point at which the handler gives up the connection worker (waiting
// for references to load): while it waits, the client can release its other
// paths to the resource, which then stays 'sent' on the strength of an event
// the client has not received, and the event later carries a reference
// without data.
func ruleSentWithFrame(c *Ctx) {
	p := c.P
	fISent := p.Field("server.Subscription.indirectsent")
	onReady := p.Method("server.Subscription.OnReady")
	send := []*types.Func{p.Method("server.ConnSubscriber.Send"), p.Method("server.wsConn.Send")}
	if fISent == nil || onReady == nil {
		c.undecided("server.Subscription.indirectsent", "anchor", "-", "not found")
		return
	}
	for _, nm := range []string{"(*server.Subscription).processModelEvent", "(*server.Subscription).processCollectionEvent"} {
		fn := p.Fn(nm)
		if fn == nil {
			c.undecided(nm, "anchor", "-", "not found")
			continue
		}
		c.inst(1)
		sp := &Spec{EdgeLimit: 1}
		sp.Classify = func(t *Tracer, fr *Frame, in ssa.Instruction) []Ev {
			if st, ok := isStoreToT(t, fr, in, fISent); ok {
				if b, isB := st.Val.(*ssa.BinOp); isB && b.Op == token.ADD {
					return []Ev{{Kind: "sent++"}}
				}
			}
			if _, ok := isCallTo(in, onReady); ok {
				return []Ev{{Kind: "wait"}}
			}
			if _, ok := isCallTo(in, send...); ok {
				return []Ev{{Kind: "send", Stop: true}}
			}
			return nil
		}
		// the populate functions count and are followed by the Send in the same task: not descended into
		sp.Inline = func(t *Tracer, fr *Frame, cl ssa.CallInstruction, f *ssa.Function) bool { return f.Parent() != nil }
		sp.NoHelpers = true
		tr := runTrace(p, fn, sp)
		bad := ""
		for _, path := range tr.Paths {
			pending := false
			for _, e := range path {
				switch e.Kind {
				case "sent++":
					pending = true
				case "send":
					pending = false
				case "wait":
					if pending {
						bad = "an edge is counted as sent before the handler waits for other references to load; the frame that shows it to the client is only written afterwards: " + tr.FmtPath(path)
					}
				}
			}
		}
		if tr.Trunc {
			bad = "path budget exhausted"
		}
		c.check(bad == "", nm, "an edge is counted as sent in the same task that hands its frame to the client", p.Pos(fn.Pos()), fmt.Sprintf("%d paths", len(tr.Paths)), bad)
	}
}

// dynCallee: for a call through a function value, the method or function the value stands for on the current path
// (a parameter of an inlined helper resolved to what the caller handed it; thunks and bound-method wrappers looked
// through). nil when unknown.
func dynCallee(t *Tracer, fr *Frame, in ssa.Instruction) *types.Func {
	call, ok := in.(*ssa.Call)
	if !ok || call.Call.IsInvoke() || call.Call.StaticCallee() != nil || t == nil || fr == nil {
		return nil
	}
	if _, isB := call.Call.Value.(*ssa.Builtin); isB {
		return nil
	}
	r := t.Resolve(fr, call.Call.Value)
	v := stripConv(r.V)
	if mc, ok := v.(*ssa.MakeClosure); ok {
		v = mc.Fn
	}
	f, ok := v.(*ssa.Function)
	if !ok {
		return nil
	}
	if f.Synthetic != "" {
		return boundMethod(f)
	}
	m, _ := f.Object().(*types.Func)
	return m
}
