package main

// Path rules over nats/nats.go written after the mutation sweep (C18, C20).
// The repository's suite runs against a mock messaging client, so nothing in it
// executes this file: the rules below are the only thing that looks at it.

import (
	"fmt"
	"go/token"
	"go/types"
	"strings"

	"golang.org/x/tools/go/ssa"
)

type natsAnchors struct {
	mq, mqCh, reqs, tq, stopped, closeH *types.Var
	completion, isReq, timer            *types.Var
}

func natsFields(p *Prog) *natsAnchors {
	a := &natsAnchors{}
	a.reqs, a.completion, a.isReq = natsRoles(p)
	a.mq = p.Field("nats.Client.mq")
	a.mqCh = p.Field("nats.Client.mqCh")
	a.tq = p.Field("nats.Client.tq")
	a.stopped = p.Field("nats.Client.stopped")
	a.closeH = p.Field("nats.Client.closeHandler")
	// the timer of a pending request: the *time.Timer member next to the completion
	if a.completion != nil && a.reqs != nil {
		if m, ok := a.reqs.Type().Underlying().(*types.Map); ok {
			et := m.Elem()
			if pt, ok := et.(*types.Pointer); ok {
				et = pt.Elem()
			}
			if st, ok := et.Underlying().(*types.Struct); ok {
				for i := 0; i < st.NumFields(); i++ {
					if strings.HasSuffix(st.Field(i).Type().String(), "time.Timer") {
						a.timer = st.Field(i)
					}
				}
			}
		}
	}
	return a
}

func isMethodOf(c *ssa.CallCommon, pkgSuffix, typ, name string) bool {
	f := calleeFunc(c)
	if f == nil || f.Name() != name || f.Pkg() == nil || !strings.HasSuffix(f.Pkg().Path(), pkgSuffix) {
		return false
	}
	sig, _ := f.Type().(*types.Signature)
	return sig != nil && sig.Recv() != nil && strings.HasSuffix(sig.Recv().Type().String(), "."+typ)
}

// ---------------------------------------------------------------------------
// CONF/nats-lifecycle (C20, C18)

func ruleNatsLifecycle(c *Ctx) {
	p := c.P
	a := natsFields(p)
	if a.mq == nil || a.mqCh == nil || a.reqs == nil || a.tq == nil || a.stopped == nil {
		c.undecided("nats.Client", "anchor", "-", "state fields not found")
		return
	}
	state := map[*types.Var]string{a.mq: "connection", a.mqCh: "message channel", a.reqs: "pending map", a.tq: "timeout queue", a.stopped: "listener-stopped channel"}
	listener := p.Fn("(*nats.Client).listener")

	// 1. Connect: a successful return has set up all five and started the listener
	if fn := p.Fn("(*nats.Client).Connect"); fn != nil {
		c.inst(1)
		sp := &Spec{}
		sp.Classify = func(t *Tracer, fr *Frame, in ssa.Instruction) []Ev {
			switch x := in.(type) {
			case *ssa.Store:
				if fa, ok := x.Addr.(*ssa.FieldAddr); ok {
					if nm, ok := state[fieldOfAddr(fa)]; ok && !isNilConst(x.Val) {
						return []Ev{{Kind: "set:" + nm}}
					}
				}
			case *ssa.Go:
				if sf := x.Call.StaticCallee(); sf != nil && (sf == listener || strings.HasSuffix(sf.Name(), "$bound") && boundMethod(sf) != nil && listener != nil && boundMethod(sf) == listener.Object()) {
					return []Ev{{Kind: "go-listener"}}
				}
			case *ssa.Return:
				if fr == t.RootFr && len(x.Results) == 1 && isNilConst(t.Resolve(fr, x.Results[0]).V) {
					return []Ev{{Kind: "ok"}}
				}
			}
			return nil
		}
		tr := runTrace(p, fn, sp)
		bad := ""
		nOK := 0
		for _, path := range tr.Paths {
			if !hasKind(path, "ok") {
				continue
			}
			nOK++
			for _, nm := range state {
				if !hasKind(path, "set:"+nm) {
					bad = "Connect reports success without setting up the " + nm + ": the first request, subscription or Close after it dereferences nil, writes to a nil map or closes a nil channel: " + tr.FmtPath(path)
				}
			}
			if !hasKind(path, "go-listener") {
				bad = "Connect reports success without starting the listener: no reply or event is ever delivered: " + tr.FmtPath(path)
			}
		}
		if nOK == 0 {
			bad = "no successful path"
		}
		c.check(bad == "" && !tr.Trunc, fnName(fn), "a successful Connect has set up connection, channel, pending map, timeout queue and listener", p.Pos(fn.Pos()), fmt.Sprintf("%d successful paths", nOK), bad)
	} else {
		c.undecided("(*nats.Client).Connect", "anchor", "-", "not found")
	}

	// 2. close: whenever the adapter was connected, everything is torn down
	if fn := p.Fn("(*nats.Client).close"); fn != nil {
		c.inst(1)
		sp := &Spec{}
		sp.Classify = func(t *Tracer, fr *Frame, in ssa.Instruction) []Ev {
			switch x := in.(type) {
			case *ssa.Store:
				if fa, ok := x.Addr.(*ssa.FieldAddr); ok {
					f := fieldOfAddr(fa)
					if f == a.mq && isNilConst(x.Val) {
						return []Ev{{Kind: "connection=nil"}}
					}
					if f == a.reqs && !isNilConst(x.Val) {
						return []Ev{{Kind: "fresh-pending-map"}}
					}
				}
			case *ssa.Return:
				if fr == t.RootFr && len(x.Results) == 1 {
					if isNilConst(t.Resolve(fr, x.Results[0]).V) {
						return []Ev{{Kind: "return:nothing-to-wait-for"}}
					}
					return []Ev{{Kind: "return:stopped"}}
				}
			case ssa.CallInstruction:
				com := x.Common()
				if b, ok := com.Value.(*ssa.Builtin); ok && b.Name() == "close" {
					if f, _ := fieldLoad(t.Resolve(fr, com.Args[0]).V); f == a.mqCh {
						return []Ev{{Kind: "stop-listener"}}
					}
				}
				if isMethodOf(com, "nats.go", "Conn", "Close") {
					return []Ev{{Kind: "conn-close"}}
				}
				if cf := calleeFunc(com); cf != nil && cf.Name() == "Clear" && cf.Pkg() != nil && strings.HasSuffix(cf.Pkg().Path(), "timerqueue") {
					return []Ev{{Kind: "clear-timeouts"}}
				}
			}
			return nil
		}
		sp.Branch = func(t *Tracer, fr *Frame, i *ssa.If, dir bool) []Ev {
			if x, nn, ok := nilTest(i, dir); ok {
				if f, _ := fieldLoad(t.Resolve(fr, x).V); f == a.mq {
					if nn {
						return []Ev{{Kind: "connected"}}
					}
					return []Ev{{Kind: "never-connected"}}
				}
			}
			v := i.Cond
			neg := false
			if u, ok := v.(*ssa.UnOp); ok && u.Op == token.NOT {
				v, neg = u.X, true
			}
			if cl, ok := v.(*ssa.Call); ok && isMethodOf(&cl.Call, "nats.go", "Conn", "IsClosed") {
				if dir != neg {
					return []Ev{{Kind: "already-closed"}}
				}
				return []Ev{{Kind: "open"}}
			}
			return nil
		}
		tr := runTrace(p, fn, sp)
		bad := ""
		nConn := 0
		for _, path := range tr.Paths {
			if hasKind(path, "never-connected") {
				continue
			}
			if !hasKind(path, "connected") {
				bad = "the teardown runs on a path that has not established that the adapter is connected (a second Close dereferences the nil connection or closes the nil channel): " + tr.FmtPath(path)
				continue
			}
			nConn++
			for _, k := range []string{"stop-listener", "connection=nil", "fresh-pending-map", "clear-timeouts", "return:stopped"} {
				if !hasKind(path, k) {
					bad = "close leaves the adapter half torn down (missing " + k + "): a message still delivered, a late timeout or a second Close then panics, or Close never waits for the listener: " + tr.FmtPath(path)
				}
			}
			if hasKind(path, "open") && !hasKind(path, "conn-close") {
				bad = "an open server connection is not closed: its subscriptions keep delivering into the closed message channel (send on closed channel): " + tr.FmtPath(path)
			}
			if !hasKind(path, "open") && !hasKind(path, "already-closed") {
				bad = "the server connection is closed (or not) without asking whether it is still open: " + tr.FmtPath(path)
			}
		}
		if nConn == 0 && bad == "" {
			bad = "no path tears a connected adapter down"
		}
		c.check(bad == "" && !tr.Trunc, fnName(fn), "close tears down everything whenever the adapter was connected, and nothing otherwise", p.Pos(fn.Pos()), fmt.Sprintf("%d paths tear a connected adapter down", nConn), bad)
	}

	// 3. Close waits for the listener whenever there is one
	if fn := p.Fn("(*nats.Client).Close"); fn != nil {
		closeFn := p.Fn("(*nats.Client).close")
		c.inst(1)
		sp := &Spec{NoHelpers: true}
		sp.Classify = func(t *Tracer, fr *Frame, in ssa.Instruction) []Ev {
			if u, ok := in.(*ssa.UnOp); ok && u.Op == token.ARROW {
				return []Ev{{Kind: "wait"}}
			}
			return nil
		}
		sp.Branch = func(t *Tracer, fr *Frame, i *ssa.If, dir bool) []Ev {
			if x, nn, ok := nilTest(i, dir); ok {
				if cl, ok := t.Resolve(fr, x).V.(*ssa.Call); ok && closeFn != nil && cl.Call.StaticCallee() == closeFn {
					if nn {
						return []Ev{{Kind: "listener-running"}}
					}
					return []Ev{{Kind: "no-listener"}}
				}
			}
			return nil
		}
		tr := runTrace(p, fn, sp)
		bad := ""
		for _, path := range tr.Paths {
			switch {
			case hasKind(path, "no-listener"):
			case hasKind(path, "listener-running") && hasKind(path, "wait"):
			default:
				bad = "Close returns without waiting for the listener although one may be running: the caller goes on to stop the cache while the listener still delivers into it (send on closed channel): " + tr.FmtPath(path)
			}
		}
		c.check(bad == "" && !tr.Trunc && len(tr.Paths) >= 2, fnName(fn), "Close waits for the listener to stop whenever there is one", p.Pos(fn.Pos()), fmt.Sprintf("%d paths", len(tr.Paths)), bad)
	}

	// 4. a slow consumer (messages were dropped) closes the connection: fail-stop
	if fn := p.Fn("(*nats.Client).onError"); fn != nil {
		closeM := p.Method("nats.Client.Close")
		c.inst(1)
		sp := &Spec{}
		sp.Classify = func(t *Tracer, fr *Frame, in ssa.Instruction) []Ev {
			if closeM != nil {
				if _, ok := isCallTo(in, closeM); ok {
					return []Ev{{Kind: "close", Stop: true}}
				}
			}
			return nil
		}
		sp.Branch = func(t *Tracer, fr *Frame, i *ssa.If, dir bool) []Ev {
			bo, ok := i.Cond.(*ssa.BinOp)
			if !ok || (bo.Op != token.EQL && bo.Op != token.NEQ) {
				return nil
			}
			for _, side := range []ssa.Value{bo.X, bo.Y} {
				if u, ok := side.(*ssa.UnOp); ok {
					if g, ok := u.X.(*ssa.Global); ok && g.Name() == "ErrSlowConsumer" {
						if (bo.Op == token.EQL) == dir {
							return []Ev{{Kind: "slow-consumer"}}
						}
						return []Ev{{Kind: "other-error"}}
					}
				}
			}
			return nil
		}
		tr := runTrace(p, fn, sp)
		bad := ""
		nSlow := 0
		for _, path := range tr.Paths {
			if hasKind(path, "slow-consumer") {
				nSlow++
				if !hasKind(path, "close") {
					bad = "a slow-consumer error (the library has dropped messages) does not close the connection: the gateway goes on serving from a cache that has missed events: " + tr.FmtPath(path)
				}
			} else if hasKind(path, "close") && !hasKind(path, "other-error") {
				bad = "the connection is closed without the slow-consumer test: " + tr.FmtPath(path)
			}
		}
		if nSlow == 0 {
			bad = "no path recognises the slow-consumer error"
		}
		c.check(bad == "" && !tr.Trunc, fnName(fn), "a slow consumer closes the connection (fail-stop instead of silently missed events)", p.Pos(fn.Pos()), fmt.Sprintf("%d paths, %d for a slow consumer", len(tr.Paths), nSlow), bad)
	}

	// 5. the closed handler is kept and called
	if a.closeH != nil {
		if fn := p.Fn("(*nats.Client).SetClosedHandler"); fn != nil {
			c.inst(1)
			stored := false
			for _, st := range p.stores[a.closeH] {
				if TopLevel(st.Parent()) == fn {
					if _, isP := stripConv(st.Val).(*ssa.Parameter); isP {
						stored = true
					}
				}
			}
			c.check(stored, fnName(fn), "the closed handler handed to the adapter is kept", p.Pos(fn.Pos()), "stored", "SetClosedHandler does not keep the handler: loss of the server connection is never reported and the service keeps running without messaging")
		}
	}
}

// ---------------------------------------------------------------------------
// CONF/nats-listener (C18): what the listener does with one message.

func ruleNatsListener(c *Ctx) {
	p := c.P
	a := natsFields(p)
	fn := p.Fn("(*nats.Client).listener")
	parse := p.Method("nats.Client.parseMeta")
	if fn == nil || a.reqs == nil || a.completion == nil || a.isReq == nil {
		c.undecided("(*nats.Client).listener", "anchor", "-", "not found")
		return
	}
	c.inst(1)
	sp := &Spec{EdgeLimit: 1}
	sp.Classify = func(t *Tracer, fr *Frame, in ssa.Instruction) []Ev {
		if lk, ok := in.(*ssa.Lookup); ok && lk.CommaOk && isPendingMap(a, lk.X.Type()) {
			return []Ev{{Kind: "lookup"}} // makes a lookup helper worth following
		}
		cl, ok := in.(ssa.CallInstruction)
		if !ok {
			return nil
		}
		com := cl.Common()
		if parse != nil {
			if _, ok := isCallTo(in, parse); ok {
				return []Ev{{Kind: "pre-response", Stop: true}}
			}
		}
		if b, ok := com.Value.(*ssa.Builtin); ok && b.Name() == "delete" {
			if f, _ := fieldLoad(t.Resolve(fr, com.Args[0]).V); f == a.reqs {
				return []Ev{{Kind: "forget"}}
			}
		}
		if !com.IsInvoke() && com.StaticCallee() == nil {
			if f, _ := fieldLoad(t.Resolve(fr, com.Value).V); f == a.completion {
				args := com.Args
				last := t.Resolve(fr, args[len(args)-1]).V
				if isNilConst(last) {
					return []Ev{{Kind: "deliver"}}
				}
				return []Ev{{Kind: "complete:error"}}
			}
		}
		return nil
	}
	sp.Branch = func(t *Tracer, fr *Frame, i *ssa.If, dir bool) []Ev {
		v := i.Cond
		neg := false
		if u, ok := v.(*ssa.UnOp); ok && u.Op == token.NOT {
			v, neg = u.X, true
		}
		d := dir != neg
		rv := t.Resolve(fr, v).V
		if ex, ok := rv.(*ssa.Extract); ok && ex.Index == 1 {
			if lk, ok := ex.Tuple.(*ssa.Lookup); ok {
				if f, _ := fieldLoad(t.Resolve(fr, lk.X).V); f == a.reqs || isPendingMap(a, lk.X.Type()) {
					if d {
						return []Ev{{Kind: "known"}}
					}
					return []Ev{{Kind: "unknown"}}
				}
			}
		}
		if f, _ := fieldLoad(rv); f == a.isReq {
			if d {
				return []Ev{{Kind: "request"}}
			}
			return []Ev{{Kind: "event"}}
		}
		// the looked-up entry handed back by a helper and tested against nil (nil = nothing was found)
		if x, nn, ok := nilTest(i, dir); ok && !nn {
			if pt, ok := x.Type().Underlying().(*types.Pointer); ok {
				if m, ok := a.reqs.Type().Underlying().(*types.Map); ok && types.Identical(m.Elem(), pt) {
					return []Ev{{Kind: "entry-nil"}}
				}
			}
		}
		if bo, ok := v.(*ssa.BinOp); ok {
			// len(msg.Data) == 0
			if x, op, k, isC := cmpConst(v); isC && k == 0 {
				if call, ok := x.(*ssa.Call); ok {
					if b, ok := call.Call.Value.(*ssa.Builtin); ok && b.Name() == "len" {
						if f, _ := fieldLoad(t.Resolve(fr, call.Call.Args[0]).V); f != nil && f.Name() == "Data" {
							if z, known := evalIntCmp(op, 0, 0); known {
								if z == d {
									return []Ev{{Kind: "empty"}}
								}
								return []Ev{{Kind: "non-empty"}}
							}
						}
					}
				}
			}
			// Header.Get("Status") == "503"
			if bo.Op == token.EQL || bo.Op == token.NEQ {
				for _, pair := range [][2]ssa.Value{{bo.X, bo.Y}, {bo.Y, bo.X}} {
					if s, ok := constString(pair[1]); ok && s == "503" {
						if (bo.Op == token.EQL) == d {
							return []Ev{{Kind: "status-503"}}
						}
						return []Ev{{Kind: "not-503"}}
					}
				}
			}
		}
		return nil
	}
	tr := runTrace(p, fn, sp)
	bad := ""
	nDeliver, nNoResp := 0, 0
	for _, path := range tr.Paths {
		inv := countKind(path, "deliver") + countKind(path, "complete:error")
		if inv > 1 {
			bad = "one message invokes the callback more than once: " + tr.FmtPath(path)
		}
		if inv > 0 && !hasKind(path, "known") {
			bad = "a callback is invoked for a message whose subscription was not found in the pending map: " + tr.FmtPath(path)
		}
		if hasKind(path, "forget") && !hasKind(path, "request") {
			bad = "the listener forgets (and unsubscribes) a subscription on a path that has not established that it is a request inbox: the first event on an event subscription would end it: " + tr.FmtPath(path)
		}
		if hasKind(path, "complete:error") {
			nNoResp++
			for _, k := range []string{"request", "empty", "status-503"} {
				if !hasKind(path, k) {
					bad = "a request is completed with the no-responders error on a path that has not established '" + k + "': a real reply (or an event) is turned into system.notFound: " + tr.FmtPath(path)
				}
			}
		}
		if hasKind(path, "deliver") {
			nDeliver++
			if hasKind(path, "request") && hasKind(path, "empty") && hasKind(path, "status-503") {
				bad = "the no-responders status message of a request is delivered as an empty successful reply: " + tr.FmtPath(path)
			}
			if hasKind(path, "request") && !hasKind(path, "pre-response") && !(hasKind(path, "non-empty") || hasKind(path, "not-503") || hasKind(path, "empty")) {
				bad = "a request's message is delivered as the reply without the no-responders test: " + tr.FmtPath(path)
			}
		}
		if hasKind(path, "pre-response") && inv > 0 {
			bad = "a pre-response is also handed to the callback: " + tr.FmtPath(path)
		}
		if hasKind(path, "known") && hasKind(path, "request") && !hasKind(path, "pre-response") && !hasKind(path, "entry-nil") && inv == 0 {
			bad = "a reply to a pending request completes nothing: " + tr.FmtPath(path)
		}
	}
	if nDeliver == 0 || nNoResp == 0 {
		bad = fmt.Sprintf("shape not recognised: %d delivering paths, %d no-responders paths", nDeliver, nNoResp)
	}
	if tr.Trunc {
		bad = "path budget exhausted"
	}
	c.check(bad == "", fnName(fn), "one message: at most one callback; no-responders exactly for an empty 503 on a request inbox; only request inboxes are forgotten", p.Pos(fn.Pos()), fmt.Sprintf("%d paths, %d deliver, %d complete with no-responders", len(tr.Paths), nDeliver, nNoResp), bad)
}

// ---------------------------------------------------------------------------
// DOM/result-or-error (C18, C15): a function of the adapter that reports
// failure through an error hands back (nil, err) only where err is known
// non-nil, and never (nil, nil); a completion is called with empty data only
// together with an error that is known non-nil (or a constant error).

func ruleResultOrError(c *Ctx) {
	p := c.P
	for _, nm := range []string{"(*nats.Client).SendRequest", "(*nats.Client).Subscribe"} {
		fn := p.Fn(nm)
		if fn == nil {
			c.undecided(nm, "anchor", "-", "not found")
			continue
		}
		c.inst(1)
		sp := &Spec{}
		errKey := func(t *Tracer, fr *Frame, v ssa.Value) string {
			return t.valKey(fr, v, t.cur)
		}
		sp.Branch = func(t *Tracer, fr *Frame, i *ssa.If, dir bool) []Ev {
			if x, nn, ok := nilTest(i, dir); ok && isErrorType(x.Type()) {
				if nn {
					return []Ev{{Kind: "nonnil:" + errKey(t, fr, x)}}
				}
				return []Ev{{Kind: "nil:" + errKey(t, fr, x)}}
			}
			return nil
		}
		known := func(t *Tracer, kind, key string) bool {
			for e := t.cur.evs; e != nil; e = e.next {
				if e.ev.Kind == kind+":"+key {
					return true
				}
			}
			return false
		}
		sp.Classify = func(t *Tracer, fr *Frame, in ssa.Instruction) []Ev {
			switch x := in.(type) {
			case *ssa.Return:
				if fr != t.RootFr || len(x.Results) < 2 {
					return nil
				}
				ev := x.Results[len(x.Results)-1]
				first := t.Resolve(fr, x.Results[0]).V
				if isNilConst(t.Resolve(fr, ev).V) {
					if isNilConst(first) {
						return []Ev{{Kind: "BAD", Note: "returns (nil, nil): success without a subscription"}}
					}
					return []Ev{{Kind: "return:ok"}}
				}
				k := errKey(t, fr, ev)
				if known(t, "nil", k) {
					if isNilConst(first) {
						return []Ev{{Kind: "BAD", Note: "returns nil together with an error that is nil on this path: success without a subscription, the callback is never registered"}}
					}
				}
				if isNilConst(first) && !known(t, "nonnil", k) {
					if _, isC := t.Resolve(fr, ev).V.(*ssa.Const); !isC {
						if _, isG := t.Resolve(fr, ev).V.(*ssa.UnOp); !isG { // a package-level error value is a constant for this purpose
							return []Ev{{Kind: "BAD", Note: "returns (nil, err) on a path that has not established err != nil"}}
						}
					}
				}
				return []Ev{{Kind: "return:err"}}
			case *ssa.MapUpdate:
				if f, _ := fieldLoad(t.Resolve(fr, x.Map).V); f != nil && f == natsFields(p).reqs {
					return []Ev{{Kind: "register"}}
				}
				return nil
			case ssa.CallInstruction:
				com := x.Common()
				if cf := calleeFunc(com); cf != nil && cf.Name() == "Add" && cf.Pkg() != nil && strings.HasSuffix(cf.Pkg().Path(), "timerqueue") {
					return []Ev{{Kind: "timed"}}
				}
				if com.IsInvoke() || com.StaticCallee() != nil {
					return nil
				}
				r := t.Resolve(fr, com.Value)
				prm, ok := r.V.(*ssa.Parameter)
				if !ok || r.Fr != t.RootFr || len(com.Args) == 0 {
					return nil
				}
				_ = prm
				last := com.Args[len(com.Args)-1]
				if !isErrorType(last.Type()) {
					return nil
				}
				lv := t.Resolve(fr, last).V
				if isNilConst(lv) {
					return []Ev{{Kind: "BAD", Note: "the completion is called by SendRequest itself with a nil error"}}
				}
				if _, isU := lv.(*ssa.UnOp); isU {
					if _, isG := lv.(*ssa.UnOp).X.(*ssa.Global); isG {
						return []Ev{{Kind: "complete:const-error"}}
					}
				}
				k := errKey(t, fr, last)
				if known(t, "nil", k) || !known(t, "nonnil", k) {
					return []Ev{{Kind: "BAD", Note: "the completion is called with empty data and an error that is not known to be set on this path: the request completes at once with an empty successful reply"}}
				}
				return []Ev{{Kind: "complete:error"}}
			}
			return nil
		}
		tr := runTrace(p, fn, sp)
		bad := ""
		for _, path := range tr.Paths {
			failed := false
			for _, e := range path {
				if e.Kind == "BAD" {
					bad = e.Note + ": " + tr.FmtPath(path)
				}
				if strings.HasPrefix(e.Kind, "complete:") || e.Kind == "return:err" {
					failed = true
				}
			}
			if !failed {
				// the success path: the callback is registered under the subscription; a request is also put on the
				// timeout queue
				if !hasKind(path, "register") {
					bad = "a successful " + fn.Name() + " does not register the callback under its subscription: no reply or event ever reaches it: " + tr.FmtPath(path)
				}
				if fn.Name() == "SendRequest" && !hasKind(path, "timed") {
					bad = "a request is sent without being put on the timeout queue: left unanswered it never completes: " + tr.FmtPath(path)
				}
			}
		}
		if tr.Trunc {
			bad = "path budget exhausted"
		}
		c.check(bad == "", fnName(fn), "failure is reported with an error that is set; success never comes empty-handed", p.Pos(fn.Pos()), fmt.Sprintf("%d paths", len(tr.Paths)), bad)
	}
}

// ---------------------------------------------------------------------------
// CONF/nats-premeta (C18): a timeout:"ms" pre-response restarts the timeout of
// its request: the running timeout (queue entry or earlier timer) is stopped,
// and exactly when that succeeded a new timer is armed whose expiry runs
// onTimeout for that request. Only a tag that is present and parses restarts
// anything.

func ruleNatsPreMeta(c *Ctx) {
	p := c.P
	a := natsFields(p)
	fn := p.Fn("(*nats.Client).parseMeta")
	onTimeout := p.Fn("(*nats.Client).onTimeout")
	if fn == nil || a.timer == nil || onTimeout == nil {
		c.undecided("(*nats.Client).parseMeta", "anchor", "-", "not found")
		return
	}
	c.inst(1)
	var stops []ssa.Value // results of tq.Remove / timer.Stop on this tree
	sp := &Spec{}
	sp.Classify = func(t *Tracer, fr *Frame, in ssa.Instruction) []Ev {
		switch x := in.(type) {
		case *ssa.Store:
			if fa, ok := x.Addr.(*ssa.FieldAddr); ok && fieldOfAddr(fa) == a.timer {
				if cl, ok := t.Resolve(fr, x.Val).V.(*ssa.Call); ok {
					if cf := calleeFunc(&cl.Call); cf != nil && cf.Name() == "AfterFunc" {
						// the timer's function runs onTimeout
						runs := false
						// onTimeout itself, or the body split off it (onTimeout(v) { c.timeoutRequest(v.(*Subscription)) })
						targets := map[*ssa.Function]bool{onTimeout: true}
						for _, c3 := range callsIn(onTimeout) {
							if sf := c3.Common().StaticCallee(); sf != nil && p.isRepoFn(sf) && !p.onReferenceTree(sf) {
								targets[sf] = true
							}
						}
						if mc, ok := t.Resolve(fr, cl.Call.Args[1]).V.(*ssa.MakeClosure); ok {
							for _, g := range p.withNewHelpers(mc.Fn.(*ssa.Function)) {
								for _, c2 := range callsIn(g) {
									if targets[c2.Common().StaticCallee()] {
										runs = true
									}
								}
							}
						}
						if runs {
							return []Ev{{Kind: "arm"}}
						}
						return []Ev{{Kind: "arm:dead"}}
					}
				}
				return []Ev{{Kind: "timer=?"}}
			}
		case ssa.CallInstruction:
			com := x.Common()
			if cf := calleeFunc(com); cf != nil {
				if cf.Name() == "Remove" && cf.Pkg() != nil && strings.HasSuffix(cf.Pkg().Path(), "timerqueue") {
					if v, ok := in.(ssa.Value); ok {
						stops = append(stops, v)
					}
					return []Ev{{Kind: "unqueue"}}
				}
				if cf.Name() == "Stop" && isMethodOf(com, "time", "Timer", "Stop") {
					if v, ok := in.(ssa.Value); ok {
						stops = append(stops, v)
					}
					return []Ev{{Kind: "stop-timer"}}
				}
			}
		}
		return nil
	}
	sp.Branch = func(t *Tracer, fr *Frame, i *ssa.If, dir bool) []Ev {
		if x, nn, ok := nilTest(i, dir); ok {
			if isErrorType(x.Type()) {
				if nn {
					return []Ev{{Kind: "unparsable"}}
				}
				return []Ev{{Kind: "parsed"}}
			}
			if f, _ := fieldLoad(t.Resolve(fr, x).V); f == a.timer {
				if nn {
					return []Ev{{Kind: "has-timer"}}
				}
				return []Ev{{Kind: "no-timer"}}
			}
		}
		v := i.Cond
		neg := false
		if u, ok := v.(*ssa.UnOp); ok && u.Op == token.NOT {
			v, neg = u.X, true
		}
		if ex, ok := v.(*ssa.Extract); ok && ex.Index == 1 {
			if cl, ok := ex.Tuple.(*ssa.Call); ok {
				if cf := calleeFunc(&cl.Call); cf != nil && cf.Name() == "Lookup" {
					if dir != neg {
						return []Ev{{Kind: "tag"}}
					}
					return []Ev{{Kind: "no-tag"}}
				}
			}
		}
		// the decision to arm: the result of the stop that ran on this path
		rv := t.Resolve(fr, v).V
		for _, s := range stops {
			if rv == s {
				if dir != neg {
					return []Ev{{Kind: "stopped"}}
				}
				return []Ev{{Kind: "too-late"}}
			}
		}
		if _, isB := v.Type().Underlying().(*types.Basic); isB {
			if _, isC := rv.(*ssa.Const); isC {
				return []Ev{{Kind: "arm-decision:constant"}}
			}
		}
		return nil
	}
	tr := runTrace(p, fn, sp)
	bad := ""
	nArm := 0
	for _, path := range tr.Paths {
		if hasKind(path, "arm:dead") {
			bad = "the timer armed for a pre-response does not run onTimeout: the request is off the timeout queue and never times out: " + tr.FmtPath(path)
		}
		if hasKind(path, "arm") || hasKind(path, "arm:dead") {
			nArm++
			for _, k := range []string{"tag", "parsed", "stopped"} {
				if !hasKind(path, k) {
					bad = "a new timeout is armed on a path that has not established '" + k + "': " + tr.FmtPath(path)
				}
			}
		}
		if hasKind(path, "tag") && hasKind(path, "parsed") {
			st := countKind(path, "unqueue") + countKind(path, "stop-timer")
			if st != 1 {
				bad = fmt.Sprintf("a valid timeout pre-response stops the running timeout %d times (exactly once expected: the queue entry, or the earlier timer): %s", st, tr.FmtPath(path))
			}
			if hasKind(path, "no-timer") && !hasKind(path, "unqueue") || hasKind(path, "has-timer") && !hasKind(path, "stop-timer") {
				bad = "the wrong timeout is stopped (the queue entry for a request that has a timer, or the nil timer of one that has none): " + tr.FmtPath(path)
			}
			if hasKind(path, "stopped") && !hasKind(path, "arm") && !hasKind(path, "arm:dead") {
				bad = "the running timeout was stopped but no new one is armed: the request never times out: " + tr.FmtPath(path)
			}
			if hasKind(path, "arm-decision:constant") {
				bad = "whether a new timeout is armed does not depend on the stop that ran: " + tr.FmtPath(path)
			}
			if !hasKind(path, "stopped") && !hasKind(path, "too-late") {
				bad = "the result of stopping the running timeout is not consulted: " + tr.FmtPath(path)
			}
		} else if hasKind(path, "unqueue") || hasKind(path, "stop-timer") {
			bad = "the running timeout is stopped for a pre-response without a valid timeout tag: " + tr.FmtPath(path)
		}
	}
	if nArm == 0 {
		bad = "no path arms a new timeout"
	}
	if tr.Trunc {
		bad = "path budget exhausted"
	}
	c.check(bad == "", fnName(fn), "a valid timeout pre-response stops the running timeout once and, if that succeeded, arms a new one that runs onTimeout", p.Pos(fn.Pos()), fmt.Sprintf("%d paths, %d arm a timer", len(tr.Paths), nArm), bad)
}

// isPendingMap: a map whose values point to the struct that holds the completion (the pending map itself, or
// the map inside a registry type that wraps it).
func isPendingMap(a *natsAnchors, t types.Type) bool {
	m, ok := t.Underlying().(*types.Map)
	if !ok || a.completion == nil {
		return false
	}
	et := m.Elem()
	if pt, ok := et.(*types.Pointer); ok {
		et = pt.Elem()
	}
	st, ok := et.Underlying().(*types.Struct)
	if !ok {
		return false
	}
	for i := 0; i < st.NumFields(); i++ {
		if st.Field(i) == a.completion {
			return true
		}
	}
	return false
}
