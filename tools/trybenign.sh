#!/bin/bash
# usage: trybenign.sh <patch> : applies a behaviour-preserving patch to a scratch copy, runs the suite and ALL checks; any
# exit != 0 is a false alarm.
export GOFLAGS=-mod=mod GOPROXY=off GOSUMDB=off GOTOOLCHAIN=local; unset GOWORK
patch=$(readlink -f "$1")
d=$(mktemp -d /tmp/ben-XXXXXX); trap 'rm -rf "$d"' EXIT
rsync -a --exclude .git /repo/ "$d/"
( cd "$d" && patch -p1 -s --no-backup-if-mismatch < "$patch" ) || { echo "PATCH-FAILED $1"; exit 3; }
( cd "$d" && go build ./... && go test -vet=off -count=1 ./... >/dev/null 2>&1 ) || { echo "SUITE-FAILED $1"; exit 3; }
out=$(${RESVERIF:-/verif/bin/resverif} check -p all -repo "$d" -no-evidence 2>&1); r=$?
if [ $r -ne 0 ]; then echo "FALSE-ALARM $1 exit=$r"; echo "$out" | grep -E "^  (VIOLATION|UNDECIDED): |^    construct:|^UNDECIDED" | sed "s#$d/##g" | cut -c1-260 | head -12; else echo "quiet $1"; fi
exit $r
