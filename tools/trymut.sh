#!/bin/bash
# usage: trymut.sh <patch.diff> <Cnn|all> [more props...]
# Applies a patch to a scratch copy of /repo (never to /repo), checks that it builds, runs the listed checks
# against the copy without touching evidence, prints their verdict lines, and removes the copy.
export GOFLAGS=-mod=mod GOPROXY=off GOSUMDB=off GOTOOLCHAIN=local; unset GOWORK
patch=$(readlink -f "$1"); shift
d=$(mktemp -d /tmp/mut-XXXXXX)
trap 'rm -rf "$d"' EXIT
rsync -a --exclude .git /repo/ "$d/"
( cd "$d" && patch -p1 -s --no-backup-if-mismatch < "$patch" ) || { echo "PATCH-FAILED $patch"; exit 3; }
( cd "$d" && go build ./... ) || { echo "BUILD-FAILED $patch"; exit 3; }
rc=0
for p in "$@"; do
  out=$(${RESVERIF:-/verif/bin/resverif} check -p "$p" -repo "$d" -no-evidence 2>&1); r=$?
  echo "== $p exit=$r"
  echo "$out" | grep -E "^(VIOLATION|UNDECIDED|KNOWN-FINDING|  (VIOLATION|UNDECIDED):|    construct:|    at:)" | sed "s#$d/##g" | cut -c1-300
  [ $r -gt $rc ] && rc=$r
done
exit $rc
