# Claims table for gen_manifest.py: claim(id, technique, level text, level note, DESIGN ref)

BASE_NOTE = ("Trusted base: Go type checker and go/ssa (x/tools v0.29.0); VTA call graph for interface calls; the frozen "
             "combinator table (checker/cmd/resverif/combs.go), each repository entry of which is itself proved by LIN/continuations; "
             "library semantics (encoding/json, nats.go, timerqueue, gorilla/websocket, net/http). ")

claim("C07", "typestate analysis by abstract path enumeration over continuation trees (go/ssa): linear use of continuations",
      "Decides for every path and schedule: rpc.HandleRequest performs exactly one Reply per dispatched request (directly or inside a handler continuation); "
      "every continuation parameter of the 27 handlers/combinators is consumed exactly once on every full path (call, delegation, or parked in a pending slot); "
      "pending callback slots are cleared only after draining. Structural necessary conditions only: liveness and the readyCallback countdown are not decided.",
      BASE_NOTE + "Assumes mq.Client.SendRequest completes exactly once (C18). Accepted drop point: a task refused because the connection is disposing. Known finding F9 (Dispose drops ready callbacks on a live connection) is reported as KNOWN-FINDING.",
      "DESIGN.md §4 C07, §3.2")

_T = "typestate / dominance analysis by abstract path enumeration over continuation trees (go/ssa, no execution)"
for _id, _txt in {
 "C01": "Decides structural necessary conditions of convergence: version filter on delivery, event gate, (more rules being added). Not decided: end-to-end equality of client copy and service state.",
 "C03": "Decides: handleEvent conformance (stamp, apply, fan-out inside the unlock window, no go statement), content/version/update change together, version filter, event gate with in-loop re-test. Not decided: socket delivery, lock capacity countdown.",
 "C04": "Decides: data hand-out only after a get grant on the same continuation path; decision lists of CanGet/CanCall; verdict cached only for result/accessDenied; verdict invalidated on every trigger. Not decided: staleness of an access answer in flight.",
 "C06": "Decides: token change fans out to every subscription; verdict cleared and gate closed before the re-check, validate then reopen after. Not decided: timing.",
 "C08": "Decides: direct-count acquire/release pairing on every continuation path of every function taking a direct subscription. Not decided: numeric equality with the response history.",
 "C09": "Decides: cache use-count pairing (getSubscription, sendRequest, Subscribe, membership removal, late Loaded). Not decided: eviction delay, gauges at quiescence.",
 "C12": "Decides (plumbing only): re-fetch once per matching cached entry with its normalised query unless one is outstanding; resetting flag protocol; derived events through handleEvent. Not decided: wildcard matcher, model diff, LCS edit script (the core of the property).",
 "C13": "Decides: one lock per cached query released exactly once on every outcome, request to the event's subject with the query key, per-iteration capture, initial load guarded by the not-loaded test of the same entry, repeated Loaded ignored. Not decided: lock capacity countdown arithmetic.",
 "C19": "Decides: exactly one Done per governed request on every path, outside any refusable task. Not decided: counting outstanding requests at run time.",
}.items():
    claim(_id, _T, _txt, BASE_NOTE, "DESIGN.md §4 " + _id)
