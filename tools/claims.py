# Claims for gen_manifest.py, derived from the checker's own property table (`resverif describe`), so that the
# MANIFEST text and the rules cannot drift apart.
import json, subprocess

_desc = json.loads(subprocess.check_output([os.path.join(V, "bin", "resverif"), "describe"]))

_ENGINE = {
    "LIN": "linear use of continuations (typestate by abstract path enumeration over continuation trees)",
    "PAIR": "acquire/release pairing along continuation paths (typestate by abstract path enumeration)",
    "CONF": "path conformance of a handler against its event automaton",
    "PATHS": "correlated path enumeration",
    "DOM": "guard dominance on SSA (closure-creation sites lifted)",
    "CTX": "execution-context (thread confinement) and guarded-by analysis over the call graph",
    "PROV": "backward provenance / taint over SSA def-use chains and the VTA call graph",
    "TABLE": "finite-table extraction by constant propagation with one input fixed per case",
    "TYPESTATE": "typestate transition table (who may store which state)",
    "WHO": "who-may-write field-store index",
    "FIFO": "queue update-form classification",
    "REC": "recursion census (SCCs of the synchronous call graph) with guard checks",
    "CHAN": "close/send discipline on channel fields",
    "LOCK": "lock-order graph",
    "CENSUS": "census of explicit panics and unchecked assertions",
    "TWIN": "sibling agreement of twin implementations",
}

BASE_NOTE = ("Level 'other': static analysis of /repo's current source with go/packages + go/ssa + VTA call graph; nothing is executed. "
             "The check decides the named structural necessary conditions on every path of the analysed functions; it does not decide the "
             "runtime behaviour as a whole. Trusted base: Go type checker and go/ssa (x/tools v0.29.0); the VTA call graph for interface calls; "
             "the frozen combinator table (checker/cmd/resverif/combs.go), each repository entry of which is itself proved by LIN/continuations; "
             "library semantics (encoding/json, nats.go, timerqueue, gorilla/websocket, net/http, sync). ")

for _id, d in sorted(_desc.items()):
    if not _id.startswith("C") or not _id[1:].isdigit():
        continue
    engines = []
    for r in d["rules"]:
        e = r["name"].split("/")[0]
        if e not in engines:
            engines.append(e)
    tech = "static analysis: " + "; ".join(_ENGINE.get(e, e) for e in engines)
    rules = ", ".join(r["name"] for r in d["rules"])
    note = BASE_NOTE + "Assumptions: " + "; ".join(d["assumptions"] or []) + ". Rules: " + rules + ". Genuine defects found by these rules are fixed in /repo (fix: commits) or listed in known_findings.txt and printed as KNOWN-FINDING."
    claim(_id, tech, d["explanation"], note, "DESIGN.md §4 " + _id)
