# Claims table for gen_manifest.py: claim(id, technique, level text, level note, DESIGN ref)

BASE_NOTE = ("Trusted base: Go type checker and go/ssa (x/tools v0.29.0); VTA call graph for interface calls; the frozen "
             "combinator table (checker/cmd/resverif/combs.go), each repository entry of which is itself proved by LIN/continuations; "
             "library semantics (encoding/json, nats.go, timerqueue, gorilla/websocket, net/http). ")

claim("C07", "typestate analysis by abstract path enumeration over continuation trees (go/ssa): linear use of continuations",
      "Decides for every path and schedule: rpc.HandleRequest performs exactly one Reply per dispatched request (directly or inside a handler continuation); "
      "every continuation parameter of the 27 handlers/combinators is consumed exactly once on every full path (call, delegation, or parked in a pending slot); "
      "pending callback slots are cleared only after draining. Structural necessary conditions only: liveness and the readyCallback countdown are not decided.",
      BASE_NOTE + "Assumes mq.Client.SendRequest completes exactly once (C18). Accepted drop point: a task refused because the connection is disposing. Known finding F9 (Dispose drops ready callbacks on a live connection) is reported as KNOWN-FINDING.",
      "DESIGN.md §4 C07, §3.2")
