#!/usr/bin/env python3
"""Regenerates /verif/MANIFEST.json from the table below (kept next to the checker so that the claims and the
rules stay in step). Run after adding or removing a property in checker/cmd/resverif/props*.go."""
import json, os, subprocess

V = os.path.dirname(os.path.dirname(os.path.abspath(__file__)))

ENV = "GOFLAGS=-mod=mod GOPROXY=off GOSUMDB=off GOTOOLCHAIN=local GOWORK=off"

# id -> (technique, level text, level note, design ref)
CLAIMS = {}
NOT_YET = {}

def claim(pid, technique, text, note, ref):
    CLAIMS[pid] = (technique, text, note, ref)

exec(open(os.path.join(V, "tools", "claims.py")).read())

props = [json.loads(l) for l in open(os.path.join(V, "properties.jsonl"))]
checks = []
na = []
for p in props:
    pid = p["id"]
    if pid in CLAIMS:
        tech, text, note, ref = CLAIMS[pid]
        checks.append({
            "property_id": pid,
            "quick_cmd": f"./bin/resverif check -p {pid} -tier quick",
            "thorough_cmd": f"./bin/resverif check -p {pid} -tier thorough",
            "evidence_file": f"/verif/evidence/{pid}.json",
            "replay_cmd_template": "./bin/resverif explain {path}",
            "engine": "resverif",
            "level_claimed": {"category": "other", "text": text, "design_ref": ref},
            "level_note": note,
            "technique": tech,
        })
    else:
        na.append({"property_id": pid, "reason": NOT_YET.get(pid, "no static rule built for this property yet (build in progress); nothing is claimed")})

m = {
    "version": 1,
    "setup_cmd": f"cd /verif/checker && {ENV} go build -o ../bin/resverif ./cmd/resverif",
    "hooks": {
        "guard": "verif",
        "enable": "the loader passes -tags=verif to go/packages so that any file guarded by that tag is analysed too; no hook code exists because nothing is executed",
        "baseline_off_cmd": "cd /repo && GOFLAGS=-mod=mod go test -vet=off -count=1 -timeout 25m ./...",
        "source_commits": [],
        "add_only": True,
    },
    "engines": [{
        "name": "resverif",
        "path": "checker/cmd/resverif",
        "serves_properties": sorted(CLAIMS),
        "kind_free_text": "custom static analyser over go/packages + go/ssa + VTA call graph: typestate by abstract path enumeration over continuation trees (LIN/PAIR), guard dominance (DOM), execution-context and guarded-by analysis (CTX), provenance/taint (PROV), finite-table extraction (TABLE), queue-form, sibling-agreement, recursion census and channel discipline rules. Nothing is executed.",
    }],
    "checks": checks,
    "not_applicable": na,
    "notes": "All claims are at level 'other': each check decides named structural necessary conditions of its property on every path of the analysed functions (see DESIGN.md §4 and each evidence file's coverage.explanation for decided / undecided clauses). Genuine defects found are listed in known_findings.txt (fixed: entries refer to fix: commits in /repo).",
}
json.dump(m, open(os.path.join(V, "MANIFEST.json"), "w"), indent=1)
print("claimed:", sorted(CLAIMS), "not applicable:", [x["property_id"] for x in na])
