#!/bin/bash
# usage: verify_seed.sh <src-dir-with patch.diff + demo> <out-dir under /verif/seeded> <property-id>
# Confirms, in a scratch worktree of /repo (removed afterwards): the patch applies and builds, the unedited suite passes
# with it, the demonstration fails with it and passes without it. Then runs every check against the patched copy and
# records which ones report a violation. Writes <out-dir>/{patch.diff,<demo>,meta.json,notes.md}.
export GOFLAGS=-mod=mod GOPROXY=off GOSUMDB=off GOTOOLCHAIN=local; unset GOWORK
src=$1; out=$2; pid=$3
mkdir -p "$out"
wt=$(mktemp -d /tmp/seedv-XXXXXX); rmdir "$wt"
git -C /repo worktree add -q --detach "$wt" HEAD || exit 3
cleanup() { git -C /repo worktree remove --force "$wt" >/dev/null 2>&1; rm -rf "$wt"; }
trap cleanup EXIT
demo=$(ls "$src" | grep -E '_test\.go$|\.go$' | head -1)
demodst="test/$demo"
grep -q '^package nats' "$src/$demo" && demodst="nats/$demo"
cd "$wt"
# 1. demo on the unchanged tree
cp "$src/$demo" "$demodst"
tests=$(grep -h '^func Test' "$demodst" | sed 's/func \(Test[A-Za-z0-9_]*\).*/\1/' | paste -sd'|')
pkg=./$(dirname "$demodst")/
base_out=$(go test -vet=off -count=1 -run "^($tests)\$" "$pkg" 2>&1); base_rc=$?
rm "$demodst"
# 2. apply
git apply "$src/patch.diff" || { echo "{\"id\":\"$pid\",\"error\":\"patch does not apply\"}" > "$out/meta.json"; exit 3; }
go build ./... || { echo "{\"id\":\"$pid\",\"error\":\"does not build\"}" > "$out/meta.json"; exit 3; }
suite_rc=0
for i in 1 2; do go test -vet=off -count=1 ./... >/tmp/seedv-suite-$$.log 2>&1 || suite_rc=1; done
cp "$src/$demo" "$demodst"
mut_out=$(go test -vet=off -count=1 -run "^($tests)\$" "$pkg" 2>&1); mut_rc=$?
rm "$demodst"
# 3. checks against the patched copy
caught=""
for p in C01 C02 C03 C04 C05 C06 C07 C08 C09 C10 C11 C12 C13 C14 C15 C16 C17 C18 C19 C20; do
  o=$(${RESVERIF:-/verif/bin/resverif} check -p $p -repo "$wt" -no-evidence 2>&1); r=$?
  if [ $r -eq 1 ]; then
    rules=$(echo "$o" | grep -E "^  (VIOLATION|UNDECIDED): " | sed 's/^  [A-Z]*: //' | sort -u | paste -sd',')
    caught="$caught\"$p\":\"$rules\","
  elif [ $r -ne 0 ]; then caught="$caught\"$p\":\"exit $r\","; fi
done
cp "$src/patch.diff" "$out/patch.diff"; cp "$src/$demo" "$out/$demo"; [ -f "$src/notes.md" ] && cp "$src/notes.md" "$out/notes.md"
python3 - "$out/meta.json" <<PY
import json,sys
meta = {
 "id": "$pid", "breaks_property": "$pid",
 "base_commit": "$(git -C /repo rev-parse --short HEAD)",
 "patch": "patch.diff", "demonstration": "$demo", "demonstration_location": "$demodst",
 "verified": {
   "suite_passes_with_change": $([ $suite_rc -eq 0 ] && echo True || echo False),
   "demo_passes_without_change": $([ $base_rc -eq 0 ] && echo True || echo False),
   "demo_fails_with_change": $([ $mut_rc -ne 0 ] && echo True || echo False),
   "commands": ["git apply patch.diff && go build ./... && go test -vet=off -count=1 ./... (x2, demo absent)",
                "go test -vet=off -count=1 -run '^($tests)\$' $pkg  (with and without the change)"]},
 "caught_by": json.loads('{' + '''$caught'''.rstrip(',') + '}'),
}
json.dump(meta, open(sys.argv[1], "w"), indent=1)
print(meta["id"], meta["verified"], sorted(meta["caught_by"]))
PY
