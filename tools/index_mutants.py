#!/usr/bin/env python3
"""Runs every patch of mutants/, seeded/*/ and benign/ against all checks (on scratch copies of /repo, removed after
use) and records which properties report a violation: mutants/INDEX.json. The thorough tier's self-test replays the
patches listed for its property and requires the recorded verdict (detected / quiet)."""
import json, os, subprocess, sys, tempfile, shutil, glob, re
from concurrent.futures import ThreadPoolExecutor
V = os.path.dirname(os.path.dirname(os.path.abspath(__file__)))
ENV = dict(os.environ, GOFLAGS="-mod=mod", GOPROXY="off", GOSUMDB="off", GOTOOLCHAIN="local")
ENV.pop("GOWORK", None)

BIN = tempfile.mkdtemp(prefix="idxbin-", dir="/tmp") + "/resverif"
shutil.copy(V + "/bin/resverif", BIN)   # the binary under test is fixed for the whole run

def run(patch):
    d = tempfile.mkdtemp(prefix="idx-", dir="/tmp")
    try:
        subprocess.check_call(["rsync", "-a", "--exclude", ".git", "/repo/", d + "/"])
        r = subprocess.run(["patch", "-p1", "-s", "--no-backup-if-mismatch", "-i", patch], cwd=d, capture_output=True, text=True)
        if r.returncode != 0:
            return patch, {"error": "patch failed"}
        r = subprocess.run(["go", "build", "./..."], cwd=d, env=ENV, capture_output=True, text=True)
        if r.returncode != 0:
            return patch, {"error": "build failed"}
        r = subprocess.run([BIN, "check", "-p", "all", "-repo", d, "-no-evidence"], capture_output=True, text=True)
        props = sorted(set(re.findall(r"^VIOLATION property=(C\d+)", r.stdout, re.M)))
        rules = {}
        cur = None
        for line in r.stdout.splitlines():
            m = re.match(r"^(C\d+) (\S+)\s+instances=\d+ obligations=\d+ discharged=\d+ open=(\d+)", line)
            if m and int(m.group(3)) > 0:
                rules.setdefault(m.group(1), []).append(m.group(2))
        undec = sorted(set(re.findall(r"^UNDECIDED property=(C\d+)", r.stdout, re.M)))
        return patch, {"detected_by": props, "undecided": undec, "exit": r.returncode}
    finally:
        shutil.rmtree(d, ignore_errors=True)

patches = sorted(glob.glob(V + "/mutants/*.patch")) + sorted(glob.glob(V + "/seeded/*/patch.diff")) + sorted(glob.glob(V + "/benign/*.patch")) + sorted(glob.glob(V + "/benign/*/*.diff"))
if len(sys.argv) > 1:
    patches = [p for p in patches if any(a in p for a in sys.argv[1:])]
idx_path = V + "/mutants/INDEX.json"
idx = json.load(open(idx_path)) if os.path.exists(idx_path) else {}
with ThreadPoolExecutor(max_workers=6) as ex:
    for patch, res in ex.map(run, patches):
        rel = os.path.relpath(patch, V)
        kind = "benign" if rel.startswith("benign/") else ("seeded" if rel.startswith("seeded/") else "mutant")
        res["kind"] = kind
        idx[rel] = res
        print(rel, res.get("detected_by"), res.get("error", ""), "UNDECIDED " + ",".join(res.get("undecided", [])) if res.get("undecided") else "")
json.dump(idx, open(idx_path, "w"), indent=1, sort_keys=True)
n_m = [k for k, v in idx.items() if v["kind"] != "benign"]
surv = [k for k in n_m if not idx[k].get("detected_by")]
fa = [k for k, v in idx.items() if v["kind"] == "benign" and (v.get("detected_by") or v.get("exit"))]
shutil.rmtree(os.path.dirname(BIN), ignore_errors=True)
print(f"{len(n_m)} breaking patches, {len(surv)} survivors: {surv}; benign: {sum(1 for v in idx.values() if v['kind']=='benign')}, false alarms: {fa}")
