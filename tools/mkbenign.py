#!/usr/bin/env python3
"""mkmut.py <name> <repo-relative-file> <old> <new> [<file> <old> <new> ...]
Creates /verif/benign/<name>.patch: the unified diff of replacing old by new (first occurrence; must exist)
in files of /repo. /repo is never modified."""
import sys, difflib, os
name = sys.argv[1]
args = sys.argv[2:]
out = []
i = 0
edits = {}
while i < len(args):
    f, old, new = args[i], args[i+1], args[i+2]
    i += 3
    src = edits.get(f) or open(os.path.join('/repo', f)).read()
    if src.count(old) < 1:
        sys.exit(f"mkmut {name}: old text not found in {f}: {old!r}")
    edits[f] = src.replace(old, new, 1)
for f, dst in edits.items():
    src = open(os.path.join('/repo', f)).read()
    out += list(difflib.unified_diff(src.splitlines(True), dst.splitlines(True), 'a/' + f, 'b/' + f))
open(f'/verif/benign/{name}.patch', 'w').write(''.join(out))
print('wrote', name)
