#!/bin/bash
# usage: one.sh <mutant-id> [Cnn|all ...] : applies sweep mutant <id> (from /verif/mutsweep/muts.jsonl or $MUTS) to a scratch copy of
# /repo, shows the edit, runs the listed checks (default all) and removes the copy.
export GOFLAGS=-mod=mod GOPROXY=off GOSUMDB=off GOTOOLCHAIN=local; unset GOWORK
id=$1; shift
props=${@:-all}
d=$(mktemp -d /tmp/one-XXXXXX); trap 'rm -rf "$d"' EXIT
rsync -a --exclude .git /repo/ "$d/"
python3 - "$id" "$d" "${MUTS:-/verif/mutsweep/muts.jsonl}" <<'PY' || exit 3
import json,sys
id=int(sys.argv[1]); d=sys.argv[2]
for l in open(sys.argv[3]):
    m=json.loads(l)
    if m['id']==id:
        p=d+'/'+m['file']; src=open(p,'rb').read()
        open(p,'wb').write(src[:m['start']]+m['repl'].encode()+src[m['end']:])
        print(f"#{id} {m['file']}:{m['line']} {m['func']} {m['op']}: {m['orig'][:100]!r} -> {m['repl'][:60]!r}")
        sys.exit(0)
sys.exit(1)
PY
( cd "$d" && go build ./... ) || { echo BUILD-FAILED; exit 3; }
for p in $props; do
  out=$(${RESVERIF:-/verif/bin/resverif} check -p "$p" -repo "$d" -no-evidence 2>&1); r=$?
  echo "== $p exit=$r $(echo "$out" | grep -E '^  (VIOLATION|UNDECIDED): ' | sort -u | tr '\n' ' ')"
done
