#!/usr/bin/env python3
"""recheck.py <results.jsonl> [--jobs N]: re-runs the CHECKS ONLY (current /verif/bin/resverif) on the mutants recorded as
'silent' and rewrites their status in place ('silent' or 'caught' + props/rules). The suite is not re-run."""
import json, os, subprocess, sys, shutil, re, threading, queue
path = sys.argv[1]
jobs = int(sys.argv[sys.argv.index('--jobs')+1]) if '--jobs' in sys.argv else 10
ENV = dict(os.environ, GOFLAGS='-mod=mod', GOPROXY='off', GOSUMDB='off', GOTOOLCHAIN='local'); ENV.pop('GOWORK', None)
rows = [json.loads(l) for l in open(path)]
q = queue.Queue()
for r in rows:
    if r['status'] == 'silent': q.put(r)
print(q.qsize(), 'to recheck', flush=True)
lock = threading.Lock(); n = [0, 0]
def worker(k):
    d = f'/tmp/mutsweep/rc{k}'
    while True:
        try: r = q.get_nowait()
        except queue.Empty: break
        subprocess.run(['rsync', '-a', '--delete', '--exclude', '.git', '/repo/', d + '/'], check=True)
        p = os.path.join(d, r['file']); src = open(p, 'rb').read()
        open(p, 'wb').write(src[:r['start']] + r['repl'].encode() + src[r['end']:])
        o = subprocess.run(['/verif/bin/resverif', 'check', '-p', 'all', '-repo', d, '-no-evidence'], cwd='/verif', env=ENV, stdout=subprocess.PIPE, stderr=subprocess.STDOUT, text=True)
        with lock:
            n[0] += 1
            if o.returncode == 1:
                r['status'] = 'caught'; n[1] += 1
                r['props'] = sorted(set(re.findall(r'^VIOLATION property=(C\d\d)', o.stdout, re.M)))
                r['rules'] = sorted(set(x.strip()[:160] for x in re.findall(r'^  (?:VIOLATION|UNDECIDED): (.*)$', o.stdout, re.M)))[:6]
            elif o.returncode != 0:
                r['status'] = 'checker-exit-%d' % o.returncode
            if n[0] % 50 == 0: print(n[0], 'rechecked,', n[1], 'now caught', flush=True)
    shutil.rmtree(d, ignore_errors=True)
ths = [threading.Thread(target=worker, args=(k,)) for k in range(jobs)]
[t.start() for t in ths]; [t.join() for t in ths]
open(path, 'w').write(''.join(json.dumps(r) + '\n' for r in rows))
print('done:', n[1], 'of', n[0], 'now caught')
