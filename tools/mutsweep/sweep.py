#!/usr/bin/env python3
"""sweep.py [--jobs N] [--only-file substr] [--ids a-b] [--out results.jsonl]

Mutation sweep used to MEASURE the checker (not a check itself, nothing here decides a property):
for every syntactic single-edit mutant of /repo's production code (tools/mutsweep/gen) it makes a scratch copy
under /tmp/mutsweep, and records
   nobuild   the mutant does not compile
   killed    the repository's own test suite fails with it
   caught    the suite passes and at least one check of /verif reports a violation (which ones is recorded)
   silent    the suite passes and every check stays quiet
The 'silent' ones are the reading list: each is either behaviour-preserving / outside the twenty properties, or a hole
in the rules. Scratch copies and build caches live under /tmp/mutsweep and are removed at the end.
"""
import json, os, subprocess, sys, shutil, re, argparse, threading, queue, time

ap = argparse.ArgumentParser()
ap.add_argument('--jobs', type=int, default=10)
ap.add_argument('--only-file', default='')
ap.add_argument('--ids', default='')
ap.add_argument('--ops', default='')
ap.add_argument('--out', default='/tmp/mutsweep/results.jsonl')
ap.add_argument('--muts', default='/tmp/mutsweep/muts.jsonl')
ap.add_argument('--keep-cache', action='store_true')
args = ap.parse_args()

ROOT = '/tmp/mutsweep'
os.makedirs(ROOT, exist_ok=True)
ENV = dict(os.environ, GOFLAGS='-mod=mod', GOPROXY='off', GOSUMDB='off', GOTOOLCHAIN='local')
ENV.pop('GOWORK', None)
DIRS = ['server', 'server/rescache', 'server/codec', 'server/rpc', 'server/mq', 'server/reserr', 'nats']

def sh(cmd, cwd=None, env=None, timeout=None):
    try:
        p = subprocess.run(cmd, cwd=cwd, env=env or ENV, stdout=subprocess.PIPE, stderr=subprocess.STDOUT, timeout=timeout, text=True, errors='replace')
        return p.returncode, p.stdout
    except subprocess.TimeoutExpired as e:
        return 124, (e.stdout or '') if isinstance(e.stdout, str) else ''

# 1. generator + checker binary snapshot
here = os.path.dirname(os.path.abspath(__file__))
rc, out = sh(['go', 'build', '-o', ROOT + '/mutgen', '.'], cwd=here + '/gen')
assert rc == 0, out
if not os.path.exists(args.muts):
    with open(args.muts, 'w') as f:
        subprocess.run([ROOT + '/mutgen', '/repo'] + DIRS, stdout=f, env=ENV, check=True)
shutil.copy('/verif/bin/resverif', ROOT + '/resverif')

LOGCALL = re.compile(r'^\s*[\w\.\(\)]*\.?(Logf|Debugf|Tracef|Errorf|Log|Debug|Trace|Error|Printf|Println)\(')
SKIPFILES = ('server/config.go', 'server/metricsServer.go', 'server/rescache/deprecated.go')
muts = []
for l in open(args.muts):
    m = json.loads(l)
    if m['file'] in SKIPFILES: continue
    if m['op'] == 'del-call' and LOGCALL.match(m['orig']): continue
    if args.only_file and args.only_file not in m['file']: continue
    if args.ops and m['op'] not in args.ops.split(','): continue
    muts.append(m)
if args.ids:
    a, b = args.ids.split('-'); muts = [m for m in muts if int(a) <= m['id'] <= int(b)]
done = set()
if os.path.exists(args.out):
    for l in open(args.out):
        try: done.add(json.loads(l)['id'])
        except Exception: pass
muts = [m for m in muts if m['id'] not in done]
print(len(muts), 'mutants to run', flush=True)

# 2. warm base cache
base = ROOT + '/basecache'
if not os.path.exists(base):
    d = ROOT + '/pristine'
    sh(['rsync', '-a', '--delete', '--exclude', '.git', '/repo/', d + '/'])
    e = dict(ENV, GOCACHE=base)
    rc, out = sh(['go', 'build', './...'], cwd=d, env=e); assert rc == 0, out
    rc, out = sh(['go', 'test', '-vet=off', '-count=1', './...'], cwd=d, env=e); assert rc == 0, out
    shutil.rmtree(d)

q = queue.Queue()
for m in muts: q.put(m)
lock = threading.Lock()
outf = open(args.out, 'a')
stats = {}

def worker(k):
    wd = f'{ROOT}/w{k}'
    cache = f'{wd}/cache'
    repo = f'{wd}/repo'
    n = 0
    while True:
        try: m = q.get_nowait()
        except queue.Empty: break
        if n % 40 == 0:
            shutil.rmtree(cache, ignore_errors=True)
            os.makedirs(wd, exist_ok=True)
            sh(['cp', '-r', base, cache])
        n += 1
        e = dict(ENV, GOCACHE=cache)
        sh(['rsync', '-a', '--delete', '--exclude', '.git', '/repo/', repo + '/'])
        p = os.path.join(repo, m['file'])
        src = open(p, 'rb').read()
        open(p, 'wb').write(src[:m['start']] + m['repl'].encode() + src[m['end']:])
        res = dict(m)
        rc, out = sh(['go', 'build', './...'], cwd=repo, env=e, timeout=300)
        if rc != 0:
            res['status'] = 'nobuild'
        else:
            rc, out = sh(['go', 'test', '-vet=off', '-count=1', '-timeout', '120s', './...'], cwd=repo, env=e, timeout=400)
            if rc != 0:
                res['status'] = 'killed'
                fails = re.findall(r'^--- FAIL: (\S+)', out, re.M)
                res['failed'] = fails[:3] if fails else [out[-200:]]
            else:
                rc, out = sh([ROOT + '/resverif', 'check', '-p', 'all', '-repo', repo, '-no-evidence'], cwd='/verif', env=e, timeout=600)
                props = sorted(set(re.findall(r'^VIOLATION property=(C\d\d)', out, re.M)))
                rules = sorted(set(x.strip() for x in re.findall(r'^  (?:VIOLATION|UNDECIDED): (.*)$', out, re.M)))
                if rc == 0:
                    res['status'] = 'silent'
                elif rc == 1:
                    res['status'] = 'caught'; res['props'] = props; res['rules'] = [r[:160] for r in rules[:6]]
                else:
                    res['status'] = 'checker-exit-%d' % rc; res['tail'] = out[-400:]
        with lock:
            stats[res['status']] = stats.get(res['status'], 0) + 1
            outf.write(json.dumps(res) + '\n'); outf.flush()
            tot = sum(stats.values())
            if tot % 25 == 0: print(time.strftime('%H:%M:%S'), tot, stats, flush=True)
    shutil.rmtree(wd, ignore_errors=True)

ths = [threading.Thread(target=worker, args=(k,)) for k in range(args.jobs)]
for t in ths: t.start()
for t in ths: t.join()
print('done', stats, flush=True)
if not args.keep_cache:
    shutil.rmtree(base, ignore_errors=True)
