#!/usr/bin/env python3
"""score.py [--jobs N]: re-runs the checks (current /verif/bin/resverif, copied) on the silent mutants the triage judged
BREAKS and prints which are reported now, by the property named in the verdict or by another. Writes mutsweep/score.json."""
import json, os, subprocess, sys, shutil, re, threading, queue, tempfile
jobs = int(sys.argv[sys.argv.index('--jobs')+1]) if '--jobs' in sys.argv else 8
V='/verif'
ENV = dict(os.environ, GOFLAGS='-mod=mod', GOPROXY='off', GOSUMDB='off', GOTOOLCHAIN='local'); ENV.pop('GOWORK', None)
muts = {json.loads(l)['id']: json.loads(l) for l in open(V+'/mutsweep/muts.jsonl')}
ver = [x for x in json.load(open(V+'/mutsweep/verdicts.json')) if x['verdict'] == 'BREAKS']
bindir = tempfile.mkdtemp(prefix='scorebin-', dir='/tmp'); BIN = bindir + '/resverif'; shutil.copy(V+'/bin/resverif', BIN)
q = queue.Queue(); [q.put(x) for x in ver]
res = {}; lock = threading.Lock()
def worker(k):
    d = tempfile.mkdtemp(prefix='score-', dir='/tmp')
    while True:
        try: x = q.get_nowait()
        except queue.Empty: break
        m = muts[x['id']]
        subprocess.run(['rsync', '-a', '--delete', '--exclude', '.git', '/repo/', d + '/'], check=True)
        p = os.path.join(d, m['file']); src = open(p, 'rb').read()
        open(p, 'wb').write(src[:m['start']] + m['repl'].encode() + src[m['end']:])
        o = subprocess.run([BIN, 'check', '-p', 'all', '-repo', d, '-no-evidence'], cwd=V, env=ENV, stdout=subprocess.PIPE, stderr=subprocess.STDOUT, text=True)
        props = sorted(set(re.findall(r'^VIOLATION property=(C\d\d)', o.stdout, re.M)))
        rules = sorted(set(x2.strip()[:80] for x2 in re.findall(r'^  (?:VIOLATION|UNDECIDED): (.*)$', o.stdout, re.M)))
        with lock:
            res[x['id']] = {'property': x['property'], 'confidence': x['confidence'], 'file': m['file'], 'func': m['func'], 'line': m['line'], 'op': m['op'], 'caught_by': props, 'rules': rules[:4], 'own': x['property'] in props}
    shutil.rmtree(d, ignore_errors=True)
ths = [threading.Thread(target=worker, args=(k,)) for k in range(jobs)]
[t.start() for t in ths]; [t.join() for t in ths]
shutil.rmtree(bindir, ignore_errors=True)
json.dump(res, open(V+'/mutsweep/score.json', 'w'), indent=1, sort_keys=True)
n = len(res); own = sum(1 for r in res.values() if r['own']); any_ = sum(1 for r in res.values() if r['caught_by'])
print(f'{n} property-breaking silent mutants: {any_} now reported ({own} by the property the triage named), {n-any_} unreported')
