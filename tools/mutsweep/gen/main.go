// gen: enumerates single-edit syntactic mutants of the production Go files of a
// repository and prints them as JSON lines {id,file,start,end,repl,op,line,orig}.
// start/end are byte offsets into the file; repl replaces that range.
// Used only to measure which changes the checks of /verif notice (tools/mutsweep/sweep.py);
// it is not part of any check.
package main

import (
	"encoding/json"
	"fmt"
	"go/ast"
	"go/parser"
	"go/token"
	"os"
	"path/filepath"
	"strings"
)

type Mut struct {
	ID    int    `json:"id"`
	File  string `json:"file"`
	Start int    `json:"start"`
	End   int    `json:"end"`
	Repl  string `json:"repl"`
	Op    string `json:"op"`
	Line  int    `json:"line"`
	Orig  string `json:"orig"`
	Func  string `json:"func"`
}

var muts []Mut

func main() {
	root := os.Args[1]
	dirs := os.Args[2:]
	for _, d := range dirs {
		files, _ := filepath.Glob(filepath.Join(root, d, "*.go"))
		for _, f := range files {
			if strings.HasSuffix(f, "_test.go") {
				continue
			}
			doFile(root, f)
		}
	}
	enc := json.NewEncoder(os.Stdout)
	for i := range muts {
		muts[i].ID = i + 1
		enc.Encode(muts[i])
	}
	fmt.Fprintln(os.Stderr, len(muts), "mutants")
}

func doFile(root, path string) {
	src, err := os.ReadFile(path)
	if err != nil {
		panic(err)
	}
	fset := token.NewFileSet()
	f, err := parser.ParseFile(fset, path, src, 0)
	if err != nil {
		panic(err)
	}
	rel, _ := filepath.Rel(root, path)
	off := func(p token.Pos) int { return fset.Position(p).Offset }
	text := func(n ast.Node) string { return string(src[off(n.Pos()):off(n.End())]) }
	cur := ""
	add := func(n ast.Node, s, e int, repl, op string) {
		o := string(src[s:e])
		if len(o) > 160 {
			o = o[:160] + "…"
		}
		muts = append(muts, Mut{File: rel, Start: s, End: e, Repl: repl, Op: op, Line: fset.Position(n.Pos()).Line, Orig: o, Func: cur})
	}
	for _, decl := range f.Decls {
		fd, ok := decl.(*ast.FuncDecl)
		if !ok || fd.Body == nil {
			continue
		}
		cur = fd.Name.Name
		if fd.Recv != nil && len(fd.Recv.List) > 0 {
			cur = strings.TrimPrefix(string(src[off(fd.Recv.List[0].Type.Pos()):off(fd.Recv.List[0].Type.End())]), "*") + "." + cur
		}
		var condMut func(e ast.Expr)
		condMut = func(e ast.Expr) {
			// weaken / strengthen boolean structure
			switch x := e.(type) {
			case *ast.ParenExpr:
				condMut(x.X)
			case *ast.BinaryExpr:
				if x.Op == token.LAND || x.Op == token.LOR {
					add(x, off(x.Pos()), off(x.End()), text(x.X), "drop-right-operand")
					add(x, off(x.Pos()), off(x.End()), text(x.Y), "drop-left-operand")
					condMut(x.X)
					condMut(x.Y)
				}
			}
		}
		ast.Inspect(fd.Body, func(n ast.Node) bool {
			switch x := n.(type) {
			case *ast.IfStmt:
				c := x.Cond
				add(c, off(c.Pos()), off(c.End()), "false && ("+text(c)+")", "cond-false")
				add(c, off(c.Pos()), off(c.End()), "true || ("+text(c)+")", "cond-true")
				add(c, off(c.Pos()), off(c.End()), "!("+text(c)+")", "cond-neg")
				condMut(c)
			case *ast.ForStmt:
				if x.Cond != nil {
					condMut(x.Cond)
				}
			case *ast.BinaryExpr:
				var alt string
				switch x.Op {
				case token.LSS:
					alt = "<="
				case token.LEQ:
					alt = "<"
				case token.GTR:
					alt = ">="
				case token.GEQ:
					alt = ">"
				}
				if alt != "" {
					add(x, off(x.OpPos), off(x.OpPos)+len(x.Op.String()), alt, "rel-boundary")
				}
			case *ast.ExprStmt:
				if _, isCall := x.X.(*ast.CallExpr); isCall {
					add(x, off(x.Pos()), off(x.End()), "", "del-call")
				}
			case *ast.IncDecStmt:
				add(x, off(x.Pos()), off(x.End()), "", "del-incdec")
			case *ast.AssignStmt:
				if x.Tok != token.DEFINE {
					// keep evaluation of calls on the right? no: plain deletion (compile errors are discarded)
					add(x, off(x.Pos()), off(x.End()), "", "del-assign")
				}
			case *ast.DeferStmt:
				add(x, off(x.Pos()), off(x.End()), "", "del-defer")
				add(x, off(x.Pos()), off(x.Pos())+len("defer"), "", "defer-to-now")
			case *ast.GoStmt:
				add(x, off(x.Pos()), off(x.Pos())+len("go"), "", "go-to-sync")
			case *ast.ReturnStmt:
				// early return inside a nested block of a function without results: delete it
				if len(x.Results) == 0 {
					add(x, off(x.Pos()), off(x.End()), "", "del-return")
				}
			case *ast.BranchStmt:
				if x.Tok == token.CONTINUE || x.Tok == token.BREAK {
					if x.Label == nil {
						other := "break"
						if x.Tok == token.BREAK {
							other = "continue"
						}
						_ = other
						add(x, off(x.Pos()), off(x.End()), "", "del-"+x.Tok.String())
					}
				}
			}
			return true
		})
	}
}
