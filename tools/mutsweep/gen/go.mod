module mutgen

go 1.20
