#!/usr/bin/env python3
"""Stress test against false alarms: applies random *combinations* of the behaviour-preserving patches of benign/ to a
scratch copy of /repo (patches that do not apply on top of the earlier ones are skipped), builds, runs the unedited
suite, then runs every check. Any exit != 0 is a false alarm. usage: combo_benign.py <n-combos> [seed] [k]"""
import glob, os, random, shutil, subprocess, sys, tempfile, json
from concurrent.futures import ThreadPoolExecutor
V = os.path.dirname(os.path.dirname(os.path.abspath(__file__)))
ENV = dict(os.environ, GOFLAGS="-mod=mod", GOPROXY="off", GOSUMDB="off", GOTOOLCHAIN="local")
ENV.pop("GOWORK", None)
n = int(sys.argv[1]) if len(sys.argv) > 1 else 10
seed = int(sys.argv[2]) if len(sys.argv) > 2 else 1
k = int(sys.argv[3]) if len(sys.argv) > 3 else 6
patches = sorted(glob.glob(V + "/benign/*.patch")) + sorted(glob.glob(V + "/benign/*/*.diff"))
rng = random.Random(seed)
combos = [rng.sample(patches, k) for _ in range(n)]

def run(combo):
    d = tempfile.mkdtemp(prefix="combo-", dir="/tmp")
    try:
        subprocess.check_call(["rsync", "-a", "--exclude", ".git", "/repo/", d + "/"])
        applied = []
        for p in combo:
            r = subprocess.run(["patch", "-p1", "-s", "--dry-run", "-F0", "-i", p], cwd=d, capture_output=True, text=True)
            if r.returncode != 0:
                continue
            subprocess.run(["patch", "-p1", "-s", "-F0", "--no-backup-if-mismatch", "-i", p], cwd=d, capture_output=True, text=True)
            r = subprocess.run(["go", "build", "./..."], cwd=d, env=ENV, capture_output=True, text=True)
            if r.returncode != 0:
                subprocess.run(["patch", "-p1", "-s", "-R", "-F0", "--no-backup-if-mismatch", "-i", p], cwd=d, capture_output=True, text=True)
                continue
            applied.append(os.path.relpath(p, V))
        r = subprocess.run(["go", "test", "-vet=off", "-count=1", "./..."], cwd=d, env=ENV, capture_output=True, text=True)
        if r.returncode != 0:
            return applied, "SUITE-FAILED", ""
        r = subprocess.run([V + "/bin/resverif", "check", "-p", "all", "-repo", d, "-no-evidence"], capture_output=True, text=True)
        if r.returncode != 0:
            lines = [l.replace(d + "/", "")[:300] for l in r.stdout.splitlines() if l.startswith("  VIOLATION") or l.startswith("    construct") or l.startswith("UNDECIDED") or l.startswith("  UNDECIDED")]
            return applied, "FALSE-ALARM exit=%d" % r.returncode, "\n".join(sorted(set(lines))[:14])
        return applied, "quiet", ""
    finally:
        shutil.rmtree(d, ignore_errors=True)

bad = 0
with ThreadPoolExecutor(max_workers=5) as ex:
    for applied, verdict, detail in ex.map(run, combos):
        print(verdict, len(applied), " ".join(applied))
        if detail:
            print(detail)
        if verdict != "quiet":
            bad += 1
print(f"{n} combinations, {bad} not quiet")
sys.exit(1 if bad else 0)
